"""Driver for the graph layer (C02, C06, C13 graph level): exhaustive exploration of every active selection choice x
every offered option from the initialised graph, all intermediate objects kept alive.

mode 'tree': every path is its own object (all orders enumerated literally).
mode 'dag' : every transition out of every distinct resolution state is executed and recorded, but the exploration
             continues only from the first object that reached a state (the monitor checks that later arrivals
             observe the same, i.e. confluence edge by edge).
"""
import traceback
from harness.build import build, SkipInput
from harness.project import obs_graph, auto_taken


def explore(g, tid=0, max_events=4000, mode='auto'):
    """Returns a trace dict {tid, g, ev, trunc, mode} or {'skip': reason}."""
    try:
        b = build(g)
    except SkipInput as e:
        return {'tid': tid, 'skip': str(e)}
    ev = []
    d0 = b.dsg
    ev.append({'e': 'Init', 'p': 0, 'c': 0, 'k': 0, 'q': 0, 'auto': auto_taken_init(b, d0), 'err': '',
               'obs': obs_graph(b, d0)})
    # resolution state = frozenset of (choice, option) incl. automatically taken ones
    counter = [0]
    seen = {}
    trunc = [False]
    n_ch = len(g['ch'])
    if mode == 'auto':
        mode = 'tree' if n_ch <= 3 else 'dag'

    def rec(d, pid, state):
        if trunc[0]:
            return
        if not d.feasible:
            return
        nxt = [c for c in d.get_ordered_next_choice_nodes() if c in b.chinv and c in d.graph.nodes]
        for c in nxt:
            for o in d.get_option_nodes(c):
                if len(ev) >= max_events:
                    trunc[0] = True
                    return
                counter[0] += 1
                qid = counter[0]
                cid, oid = b.chinv[c], b.inv[o]
                try:
                    d2 = d.get_for_apply_selection_choice(c, o)
                except Exception as e:  # recorded, judged by the monitor
                    ev.append({'e': 'Take', 'p': pid, 'c': cid, 'k': oid, 'q': qid, 'auto': [],
                               'err': type(e).__name__, 'obs': EMPTY_OBS})
                    continue
                auto = auto_taken(b, d2)
                ev.append({'e': 'Take', 'p': pid, 'c': cid, 'k': oid, 'q': qid, 'auto': auto, 'err': '',
                           'obs': obs_graph(b, d2)})
                st2 = state | {(cid, oid)} | {(a, k) for a, k in auto}
                if mode == 'dag':
                    if st2 in seen:
                        continue
                    seen[st2] = qid
                rec(d2, qid, st2)

    st0 = frozenset((a, k) for a, k in ev[0]['auto'])
    seen[st0] = 0
    rec(d0, 0, st0)
    return {'tid': tid, 'g': g, 'ev': ev, 'trunc': trunc[0], 'mode': mode}


EMPTY_OBS = {'nodes': [], 'sel_left': [], 'cc_left': [], 'feasible': False, 'final': False, 'der': [], 'con': [],
             'marker': 0, 'exc': [], 'inc': [], 'conf': [], 'next': [], 'offered': [], 'ghost': []}


def auto_taken_init(b, d):
    # initialize_choices ends with resolve_single_selection_choices, which leaves its record on the class
    return auto_taken(b, d)
