"""Driver for the graph layer (C02, C06, C13 graph level): exhaustive exploration of every active selection choice x
every offered option from the initialised graph, all intermediate objects kept alive.

mode 'tree': every path is its own object (all orders enumerated literally).
mode 'dag' : every transition out of every distinct resolution state is executed and recorded, but the exploration
             continues only from the first object that reached a state (the monitor checks that later arrivals
             observe the same, i.e. confluence edge by edge).
"""
import traceback
from harness.build import build, SkipInput
from harness.project import obs_graph, auto_taken


def explore(g, tid=0, max_events=4000, mode='auto', with_conn=True, seed=0, staged=False):
    """Returns a trace dict {tid, g, ev, trunc, mode} or {'skip': reason}."""
    try:
        b = build(g, staged=staged)
    except SkipInput as e:
        return {'tid': tid, 'skip': str(e)}
    except Exception as e:
        # the builder API itself raised (recorded as an Init event with an error; judged by the monitor)
        return {'tid': tid, 'g': g, 'trunc': False, 'mode': 'none',
                'ev': [{'e': 'Init', 'p': 0, 'c': 0, 'k': 0, 'q': 0, 'auto': [], 'err': type(e).__name__, 'obs': EMPTY_OBS}]}
    import random
    rng = random.Random(seed*31+tid)
    ev = []
    d0 = b.dsg
    ev.append({'e': 'Init', 'p': 0, 'c': 0, 'k': 0, 'q': 0, 'auto': auto_taken_init(b, d0), 'err': '',
               'obs': obs_graph(b, d0)})
    # resolution state = frozenset of (choice, option) incl. automatically taken ones
    counter = [0]
    seen = {}
    trunc = [False]
    n_ch = len(g['ch'])
    if mode == 'auto':
        mode = 'tree' if n_ch <= 3 else 'dag'

    def rec(d, pid, state):
        if trunc[0]:
            return
        if not d.feasible:
            return
        nxt = [c for c in d.get_ordered_next_choice_nodes() if c in b.chinv and c in d.graph.nodes]
        if not nxt and with_conn:
            finals.append((d, pid))
            # all selection choices are resolved: the documented point at which connection choices are resolved
            for cn in [c for c in d.graph.nodes if c in b.ccinv]:
                if len(ev) >= max_events:
                    trunc[0] = True
                    return
                ev.append(conn_event(b, d, pid, cn, counter, rng))
        for c in nxt:
            for o in d.get_option_nodes(c):
                if len(ev) >= max_events:
                    trunc[0] = True
                    return
                counter[0] += 1
                qid = counter[0]
                cid, oid = b.chinv[c], b.inv[o]
                try:
                    d2 = d.get_for_apply_selection_choice(c, o)
                except Exception as e:  # recorded, judged by the monitor
                    ev.append({'e': 'Take', 'p': pid, 'c': cid, 'k': oid, 'q': qid, 'auto': [],
                               'err': type(e).__name__, 'obs': EMPTY_OBS})
                    continue
                auto = auto_taken(b, d2)
                ev.append({'e': 'Take', 'p': pid, 'c': cid, 'k': oid, 'q': qid, 'auto': auto, 'err': '',
                           'obs': obs_graph(b, d2)})
                st2 = state | {(cid, oid)} | {(a, k) for a, k in auto}
                if mode == 'dag':
                    if st2 in seen:
                        continue
                    seen[st2] = qid
                rec(d2, qid, st2)

    finals = []
    st0 = frozenset((a, k) for a, k in ev[0]['auto'])
    seen[st0] = 0
    rec(d0, 0, st0)
    # interleaved use: with every scenario derived by now, each selection-final object is asked again (grouping
    # connectors keep their degrees on node objects shared by all of them)
    if with_conn and len(finals) > 1 and any(nd['t'] == 'grp' for nd in g['nodes']):
        for d, pid in finals[:-1]:
            for cn in [c for c in d.graph.nodes if c in b.ccinv]:
                if len(ev) >= max_events:
                    trunc[0] = True
                    break
                ev.append(conn_event(b, d, pid, cn, counter, rng))
    return {'tid': tid, 'g': g, 'ev': ev, 'trunc': trunc[0], 'mode': mode}


EMPTY_OBS = {'nodes': [], 'sel_left': [], 'cc_left': [], 'feasible': False, 'final': False, 'der': [], 'con': [],
             'marker': 0, 'exc': [], 'inc': [], 'conf': [], 'next': [], 'offered': [], 'ghost': []}


def auto_taken_init(b, d):
    # initialize_choices ends with resolve_single_selection_choices, which leaves its record on the class
    first = getattr(b, 'auto_first', [])
    return first + [a for a in auto_taken(b, d) if a not in first]


def conn_event(b, d, pid, cn, counter, rng, max_sets=60, box_limit=300):
    """Everything the property observes about one connection choice of one selection-final instance."""
    import itertools
    import numpy as np
    from adsg_core.optimization.assign_enc.matrix import NodeExistence
    k = b.ccinv[cn]
    e = {'e': 'Conn', 'p': pid, 'c': k, 'k': 0, 'q': 0, 'auto': [], 'err': '', 'obs': EMPTY_OBS, 'offered': [], 'cap': [],
         'srcn': [], 'tgtn': [], 'val': [], 'applied': [], 'box_complete': False}
    try:
        offered = [[[b.inv[s], b.inv[t]] for s, t in edges] for edges in cn.iter_conn_edges(d)]
        e['offered'] = [sorted(x) for x in offered]
        gen, node_map = cn._get_matrix_gen(d)          # observation of the per-pair limits (logged, not modelled)
        e['srcn'] = [b.inv[n] for n in node_map[0]]
        e['tgtn'] = [b.inv[n] for n in node_map[1]]
        cap = [[int(v) for v in row] for row in gen.get_max_conn_mat(NodeExistence())]
        e['cap'] = cap
        # validation on the box of edge multisets allowed by the limits (+ one beyond)
        cells = [(i, j) for i in range(len(cap)) for j in range(len(cap[0]) if cap else 0)]
        ranges = [range(cap[i][j]+1) for i, j in cells]
        total = 1
        for r in ranges:
            total *= len(r)
        combos = list(itertools.product(*ranges)) if total <= box_limit else \
            [tuple(rng.choice(list(r)) for r in ranges) for _ in range(box_limit)]
        e['box_complete'] = total <= box_limit
        for vals in combos:
            edges = []
            for (i, j), v in zip(cells, vals):
                edges += [(node_map[0][i], node_map[1][j])]*v
            ok = bool(cn.validate_conn_edges(d, edges))
            e['val'].append({'edges': sorted([b.inv[s], b.inv[t]] for s, t in edges), 'ok': ok})
        for edges in offered[:max_sets]:
            counter[0] += 1
            qid = counter[0]
            try:
                d2 = d.get_for_apply_connection_choice(cn, [(b.node[s], b.node[t]) for s, t in edges])
                e['applied'].append({'q': qid, 'edges': sorted(edges), 'err': '', 'obs': obs_graph(b, d2)})
            except Exception as ex:
                e['applied'].append({'q': qid, 'edges': sorted(edges), 'err': type(ex).__name__, 'obs': EMPTY_OBS})
    except Exception as ex:
        e['err'] = type(ex).__name__ + ': ' + str(ex)[:120]
    return e
