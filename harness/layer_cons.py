"""Choice-constraint layer (C13): the bounded-exhaustive constraint family + linked design-variable nodes through the
graph layer (all orders) and the processor layer (both encoders), plus the index-combination function itself."""
import itertools
import json
from harness import gen_cons, layer_graph, layer_proc, tlc
from harness.runner import pmap


def idx_events(quick):
    """get_valid_idx_combinations on every index matrix with <= 3 columns, values in -1..2 (quick) / -1..3, <= 3 rows
    of interest are covered by listing ALL rows once: validity is decided per row."""
    import numpy as np
    from adsg_core.graph.choice_constraints import get_valid_idx_combinations, ChoiceConstraintType as T
    types = {'linked': T.LINKED, 'perm': T.PERMUTATION, 'unord': T.UNORDERED, 'unordnr': T.UNORDERED_NOREPL}
    vals = [-1, 0, 1, 2] if quick else [-1, 0, 1, 2, 3]
    out = []
    for ncol in (1, 2, 3):
        rows = [list(r) for r in itertools.product(vals, repeat=ncol)]
        arr = np.array(rows, dtype=int)
        for name, t in types.items():
            for perm_flag in (False, True):
                valid = [int(i) for i in get_valid_idx_combinations(arr.copy(), t, is_all_permanent=perm_flag)]
                out.append({'type': name, 'all_permanent': perm_flag, 'rows': rows, 'valid': valid})
    return out


def run(ctx):
    gs = gen_cons.family(ctx.quick) + gen_cons.linked_dv_graphs()
    g_res = layer_graph.run(ctx, gs=gs)
    p_res = layer_proc.run(ctx, gs=gs)
    idx = idx_events(ctx.quick)
    mon = tlc.run_monitor('Mon_Idx', [{'tid': i, 'ev': e} for i, e in enumerate(idx)], cfg='Mon_Idx.cfg', shards=4)
    idx_fails = [{'tid': i, 'fails': mon['verdicts'][i][2], 'case': {k: idx[i][k] for k in ('type', 'all_permanent')}}
                 for i in range(len(idx)) if mon['verdicts'][i][2]]
    return {'graph': g_res, 'proc': p_res, 'idx_fails': idx_fails, 'idx_cases': len(idx),
            'idx_rows': sum(len(e['rows']) for e in idx), 'idx_states': mon['states'], 'n_graphs': len(gs)}
