"""Driver for C17: metric classification and evaluation."""
import itertools
import math
import random

from harness.build import build, SkipInput
from harness.gd import node, UNIT
from harness import gen_graph

NAN = -999999


def add_metric_nodes(g, rng, nmin=2, nmax=5):
    k = rng.randint(nmin, nmax)
    for _ in range(k):
        parent = rng.randint(1, g['n'])
        g['n'] += 1
        mdir = rng.choice([-1, 0, 1, 1])
        hasref = rng.random() < 0.5
        g['nodes'].append(node('met', mdir=mdir, hasref=hasref, ref=rng.choice([-2, 0, 3])*UNIT, mtype=rng.choice(['auto', 'auto', 'none', 'obj', 'con'])))
        g['der'].append([parent, g['n']])
    g['der'].sort()
    g['feat'].append('metrics')
    return g


def metric_family():
    """Every (direction, reference, declared type) combination once under a permanent and once under a conditional node."""
    out = []
    combos = list(itertools.product([-1, 0, 1], [False, True], ['auto', 'none', 'obj', 'con']))
    for chunk in range(0, len(combos), 4):
        g = gen_graph.empty(4) if hasattr(gen_graph, 'empty') else None
        from harness.gd import empty
        g = empty(4)
        g['ch'] = [{'origin': 1, 'opts': [3, 4]}]
        g['der'] = [[1, 2]]
        for (mdir, hasref, mtype) in combos[chunk:chunk+4]:
            for parent in (2, 3):
                g['n'] += 1
                g['nodes'].append(node('met', mdir=mdir, hasref=hasref, ref=2*UNIT, mtype=mtype))
                g['der'].append([parent, g['n']])
        g['der'].sort()
        g['feat'] = ['metric_family']
        out.append(g)
    return out


def val(v):
    if v is None:
        return NAN
    if isinstance(v, float) and math.isnan(v):
        return NAN
    return int(round(v*UNIT))


def drive(g, tid=0, seed=0):
    from adsg_core.optimization.evaluator import DSGEvaluator
    from adsg_core.optimization.hierarchy import SelChoiceEncoderType
    rng = random.Random(seed*9176+tid)
    try:
        b = build(g)
    except SkipInput as e:
        return {'tid': tid, 'skip': str(e)}
    ev = []
    mode = {'m': 'complete'}
    given = {}

    class Ev(DSGEvaluator):
        def _evaluate(self, dsg, metric_nodes):
            out = {}
            given.clear()
            for i, mn in enumerate(sorted(metric_nodes, key=lambda n: n.name)):
                if mode['m'] == 'partial' and i % 2 == 1:
                    continue
                v = math.nan if mode['m'] == 'nan' and i % 2 == 0 else float(b.inv[mn]) + 0.5
                out[mn] = v
                given[b.inv[mn]] = v
            return out

    e0 = {'e': 'Metrics', 'err': '', 'msg': '', 'objectives': [], 'constraints': [], 'obj_dirs': [], 'con_refs': [], 'con_dirs': []}
    try:
        p = Ev(b.dsg, encoder_type=SelChoiceEncoderType.COMPLETE)
        objs = p.objectives
        cons = p.constraints
        e0['objectives'] = [b.inv[o.node] for o in objs]
        e0['constraints'] = [b.inv[c.node] for c in cons]
        e0['obj_dirs'] = [o.sign for o in objs]
        e0['con_refs'] = [val(c.ref) for c in cons]
        e0['con_dirs'] = [c.sign for c in cons]
        # asking twice must give the same order
        p2 = Ev(b.dsg, encoder_type=SelChoiceEncoderType.COMPLETE)
        e0['objectives2'] = [b.inv[o.node] for o in p2.objectives]
        e0['constraints2'] = [b.inv[c.node] for c in p2.constraints]
    except Exception as ex:
        e0['err'] = type(ex).__name__
        e0['msg'] = str(ex)[:120]
        e0['objectives2'] = []
        e0['constraints2'] = []
    ev.append(e0)
    if not e0['err']:
        try:
            res = p.get_all_discrete_x()
            rows = [list(r) for r in res[0]] if res is not None else []
        except Exception:
            rows = []
        for xi, x in enumerate(rows[:40]):
            inst = None
            for m in ('complete', 'partial', 'nan'):
                mode['m'] = m
                ee = {'e': 'Eval', 'mode': m, 'err': '', 'nodes': [], 'given': [], 'obj': [], 'con': [], 'stored': []}
                try:
                    # every second architecture: the SAME instance is evaluated three times (complete, partial, NaN maps),
                    # what it stores afterwards must be what the last evaluation gave
                    if inst is None or xi % 2 == 0:
                        inst, _, _ = p.get_graph(x)
                    ov, cv = p.evaluate(inst)
                    ee['nodes'] = sorted(b.inv[n] for n in inst.graph.nodes if n in b.inv)
                    ee['given'] = sorted([k, val(v)] for k, v in given.items())
                    ee['obj'] = [val(v) for v in ov]
                    ee['con'] = [val(v) for v in cv]
                    ee['stored'] = sorted([b.inv[n], val(v)] for n, v in inst.metric_values.items() if n in b.inv)
                except Exception as ex:
                    ee['err'] = type(ex).__name__
                ev.append(ee)
    return {'tid': tid, 'g': g, 'ev': ev}
