import json
"""Per-property check definitions.  Each returns a dict:
   level, coverage (evidence schema keys), assumptions, violations: [{clause, where, payload}], notes."""
from harness import runner


def _graph_layer_check(ctx, prefixes, what, corpora=('graph', 'graphcc')):
    from harness import layer_graph
    parts = []
    if 'graph' in corpora:
        parts.append(runner.memo('graph', ctx, lambda: layer_graph.run(ctx)))
    if 'graphcc' in corpora:
        parts.append(runner.memo('graphcc', ctx, lambda: layer_graph.run_cc(ctx)))
    res = parts[0] if len(parts) == 1 else _merge(parts)
    viol = []
    for f in res['fails']:
        mine = [c for c in f['fails'] if c[0].split('.')[0] in prefixes]
        if mine:
            viol.append({'clause': mine[0][0], 'all_clauses': mine, 'where': 'event %d' % mine[0][1],
                         'payload': {'layer': 'graph', 'g': f['trace']['g'], 'trace': f['trace']}})
    cov = {'states': res['states'], 'transitions': res['transitions'],
           'traces_validated_against_impl': res['n_traces'], 'samples': res['samples'],
           'evaluations': res['n_events'], 'distinct_nontrivial': res['nontrivial'],
           'rule': 'one trace per generated description (theory-page example, bounded-exhaustive family, seeded random '
                   'family); every active choice x every offered option is taken from every reached object (all orders); '
                   'non-trivial = distinct description in which at least one choice was taken by the driver',
           'descriptions': res['n_graphs'], 'events': res['n_events'], 'admissible_architectures': res['adm_total'],
           'truncated_explorations': res['truncated'], 'features': res['features'], 'drift': res['drift'],
           'exhaustive': False, 'what': what}
    return {'level': 'model_checking', 'coverage': cov, 'violations': viol,
            'assumptions': ['DSGSem.tla is a faithful reading of docs/theory.md',
                            'harness/build.py and project.py only translate (no semantics)',
                            'descriptions in which an incompatible pair is joined by a direct derivation edge are outside '
                            'the generated families', 'TLC, CommunityModules Json']}


def _merge(parts):
    out = dict(parts[0])
    for p in parts[1:]:
        for k in ('n_traces', 'states', 'transitions', 'n_events', 'nontrivial', 'adm_total', 'truncated', 'n_graphs'):
            out[k] = out[k] + p[k]
        out['fails'] = out['fails'] + p['fails']
        out['samples'] = out['samples'] + p['samples'][:1]
        for k in ('features', 'drift'):
            d = dict(out[k])
            for kk, v in p[k].items():
                d[kk] = d.get(kk, 0) + v
            out[k] = d
    return out


def check_C11(ctx):
    res = _graph_layer_check(ctx, {'C11'}, 'graph level: offered connection sets = valid sets for the connectors present, validation, '
                                           'application; scenarios never lost', corpora=('graphcc',))
    pr = _proc_layer_check(ctx, {'C11'}, 'processor level: decoded connection edges valid for the scenario, scenarios with a valid set '
                                         'never lost, scenarios without one never decoded to')
    res['violations'] += pr['violations']
    res['coverage']['processor_level'] = {k: pr['coverage'][k] for k in ('descriptions', 'decodes', 'encoders', 'features')}
    for k in ('states', 'transitions', 'traces_validated_against_impl', 'evaluations'):
        res['coverage'][k] += pr['coverage'][k]
    return res


def check_C02(ctx):
    return _graph_layer_check(ctx, {'C02'}, 'closure, no choice left, all orders, set of reachable finals = admissible set')


def check_C06(ctx):
    return _graph_layer_check(ctx, {'C06'}, 'no conflict in feasible finals, viable options always offered, '
                                            'infeasible only without admissible extension')


PROC_ASSUME = ['DSGSem.tla / Processor.tla are a faithful reading of docs/theory.md and of the property statements',
               'harness/build.py, project.py, drive_proc.py only translate and record (no semantics)',
               'excluded input classes: incompatible pair joined by a direct derivation edge; sibling choices (same '
               'originating node) sharing an option', 'TLC, CommunityModules Json']


def _proc_layer_check(ctx, prefixes, what, level='model_checking'):
    from harness import layer_proc
    res = runner.memo('proc', ctx, lambda: layer_proc.run(ctx))
    viol = []
    for f in res['fails']:
        mine = [c for c in f['fails'] if c[0].split('.')[0] in prefixes]
        if mine:
            viol.append({'clause': mine[0][0], 'all_clauses': sorted({c[0] for c in mine}), 'where': 'event %d' % mine[0][1],
                         'payload': {'layer': 'proc', 'g': f['g'], 'trace': f['trace'], 'fail_idx': mine[0][1]}})
    cov = {'states': res['states'], 'transitions': res['transitions'],
           'traces_validated_against_impl': res['n_traces'], 'samples': res['samples'],
           'evaluations': res['n_decodes'], 'distinct_nontrivial': res['nontrivial'],
           'rule': 'one trace per generated description: per encoder (complete, fast) the processor is built, every vector '
                   'of the declared space is decoded (sampled beyond the cap), each corrected vector is decoded again with '
                   'and without materialising, the valid designs are enumerated and every row decoded; non-trivial = '
                   'distinct description with at least 4 decodes',
           'descriptions': res['n_graphs'], 'events': res['n_events'], 'decodes': res['n_decodes'],
           'admissible_architectures': res['adm_total'], 'features': res['features'], 'encoders': res['encoders'],
           'clause_counts_before_attribution': res['clause_counts'], 'exhaustive': False, 'what': what}
    return {'level': level, 'coverage': cov, 'violations': viol, 'assumptions': PROC_ASSUME}


def check_C01(ctx):
    return _proc_layer_check(ctx, {'C01'}, 'decode returns a final, feasible, admissible instance for every declared vector')


def check_C03(ctx):
    return _proc_layer_check(ctx, {'C03'}, 'corrected vector in range, idempotent, describes the instance, injective')


# the property's quantifier includes fixed variables: the enumeration clauses of the history layer (Mon_Hist keeps the
# specification's fixed map; complete encoder) are C04's clauses as well
C04_WITH_FIXED = {'C15.restricted_design_not_in_original': 'C04.row_outside_restricted_reference_with_fixed_variables',
                  'C15.original_design_missing': 'C04.admissible_architecture_missing_with_fixed_variables',
                  'C15.duplicate_design': 'C04.duplicate_row_with_fixed_variables',
                  'C15.count_disagrees': 'C04.count_differs_from_rows_with_fixed_variables',
                  'C15.declared_size_wrong': 'C04.declared_size_not_product_with_fixed_variables',
                  'C15.enumeration_raised': 'C04.enumeration_raised_with_fixed_variables'}


def check_C04(ctx):
    res = _proc_layer_check(ctx, {'C04'}, 'enumerated rows = admissible architectures, one each; counts')
    from harness import layer_hist
    h = runner.memo('hist', ctx, lambda: layer_hist.run(ctx))
    n = 0
    for f in h['fails']:
        if f['enc'] != 'complete':
            continue
        mine = [C04_WITH_FIXED[c[0]] for c in f['fails'] if c[0] in C04_WITH_FIXED]
        if mine:
            n += 1
            res['violations'].append({'clause': mine[0], 'all_clauses': sorted(set(mine)), 'where': 'history %s' % json_short(f['hist']),
                                      'payload': {'layer': 'hist', 'g': f['g'], 'enc': f['enc'], 'problem': f['problem'], 'hist': f['hist'],
                                                  'alias': C04_WITH_FIXED}})
    res['coverage']['with_fixed_variables'] = {'histories_replayed': h['n_traces'], 'problems': h['problems'],
                                               'rule': 'every fix-only history (all combinations of fixed variables) and a sample of the other '
                                                       'histories of the C05/C15 layer: after every fix / free the enumeration of the complete '
                                                       'encoder is compared by TLC with the two filters of the unrestricted reference rows'}
    res['coverage']['states'] += h['states']
    res['coverage']['transitions'] += h['transitions']
    res['coverage']['traces_validated_against_impl'] += h['n_traces']
    return res


def check_C07(ctx):
    res = _proc_layer_check(ctx, {'C07'}, 'activeness only if node exists, canonical inactive values, path independence')
    # encoder-level activeness clauses (every registered connection encoder): same traces as C10
    cod = _coding_check(ctx, 'C07.', 'connection encoders: activeness per corrected vector is path independent and equals the listed one')
    res['violations'] += cod['violations']
    res['coverage']['connection_encoder_level'] = {k: cod['coverage'][k] for k in ('settings', 'encoder_instances', 'evaluations', 'by_kind')}
    res['coverage']['states'] += cod['coverage']['states']
    res['coverage']['transitions'] += cod['coverage']['transitions']
    res['coverage']['traces_validated_against_impl'] += cod['coverage']['traces_validated_against_impl']
    return res


def check_C14(ctx):
    return _proc_layer_check(ctx, {'C14'}, 'fast encoder: sound, covers the admissible set, valid vectors unchanged')


def check_C16(ctx):
    return _proc_layer_check(ctx, {'C16'}, 'design-variable nodes: value iff present, clamped, reported')


def check_C09(ctx):
    from harness import layer_conn
    res = runner.memo('connsem', ctx, lambda: layer_conn.run(ctx))
    viol = [{'clause': f['fails'][0][0], 'all_clauses': sorted({c[0] for c in f['fails']}), 'where': 'event %d' % f['fails'][0][1],
             'payload': {'layer': 'connsem', 's': f['s']}} for f in res['fails'] if any(c[0].startswith('C09.') for c in f['fails'])]
    cov = {'states': res['states'], 'transitions': res['transitions'], 'traces_validated_against_impl': res['n_traces'],
           'samples': res['samples'], 'evaluations': res['patterns'], 'distinct_nontrivial': res['nontrivial'],
           'rule': 'one trace per connector settings (all 1x1 alphabet settings, seeded sample of the 2x2 alphabet family with '
                   'all existence patterns, seeded random up to 3x3 with exclusions, degree overrides and explicit parallel '
                   'limits); per existence pattern the enumerated matrices, iter_matrices, validate_matrix on the whole '
                   'cap box (sampled above 800) and the counts are recorded; non-trivial = distinct settings with >= 2 valid matrices',
           'settings': res['n_settings'], 'existence_patterns': res['patterns'], 'valid_matrices_total': res['matrices'],
           'matrices_validated': res['validated'], 'shapes': res['shapes'], 'exhaustive': False}
    return {'level': 'model_checking', 'coverage': cov, 'violations': viol,
            'assumptions': ['ConnSem.tla is a faithful reading of the connector-constraint semantics of docs/theory.md',
                            'per-pair limits are logged and only constrained as far as the documentation constrains them (CapsOK)',
                            'TLC evaluates the declarative definition (spec-as-oracle); no state-machine content here',
                            'TLC, CommunityModules Json']}


def _coding_check(ctx, prefix, what):
    from harness import layer_coding
    res = runner.memo('coding', ctx, lambda: layer_coding.run(ctx))
    viol = [{'clause': f['clause'], 'where': 'event %d, encoder %s/%d %s + %s' % (f['at'], f['enc']['kind'], f['enc']['idx'], f['enc']['name'][:40], f['enc']['imp']),
             'payload': {'layer': 'coding', 's': f['s'], 'enc': f['enc']}} for f in res['fails'] if f['clause'].startswith(prefix)]
    cov = {'states': res['states'], 'transitions': res['transitions'], 'traces_validated_against_impl': res['n_traces'],
           'samples': res['samples'], 'evaluations': res['decodes'], 'distinct_nontrivial': res['nontrivial'],
           'rule': 'one trace per connector settings; every factory of the encoder registry (eager, lazy, enumerating, pattern) x '
                   'default imputer and alternative imputers (one seeded alternative in quick, all in thorough; the two '
                   'constraint-violation imputers excluded: returning an invalid design is their purpose); per existence pattern '
                   '(up to 4 decoded per settings) every vector of the declared space (sampled above the cap), out-of-range and '
                   'over-long vectors, each corrected vector decoded again, and the listed design vectors; non-trivial = settings '
                   'with >= 2 valid matrices and at least one accepting encoder',
           'settings': res['n_settings'], 'encoder_instances': res['encoders'], 'refusals': res['refused'],
           'by_kind': res['by_kind'], 'failure_classes_before_attribution': res['classes'], 'exhaustive': False, 'what': what}
    return {'level': 'model_checking', 'coverage': cov, 'violations': viol,
            'assumptions': ['ConnSem.tla valid-matrix semantics', 'per-pair limits logged (CapsOK checked under C09)',
                            'InvalidPatternEncoder at construction is the one accepted refusal',
                            'violations of an (encoder, imputer, clause) class listed in known_findings.json are attributed to it',
                            'TLC, CommunityModules Json']}


def check_C10(ctx):
    return _coding_check(ctx, 'C10.', 'faithful, total, onto coding; listed vectors; used values')


def _hist_check(ctx, prefix, what):
    from harness import layer_hist
    res = runner.memo('hist', ctx, lambda: layer_hist.run(ctx))
    viol = [{'clause': [c for c in f['fails'] if c[0].startswith(prefix)][0][0], 'where': 'history %s' % json_short(f['hist']),
             'payload': {'layer': 'hist', 'g': f['g'], 'enc': f['enc'], 'problem': f['problem'], 'hist': f['hist']}}
            for f in res['fails'] if any(c[0].startswith(prefix) for c in f['fails'])]
    if not res['mc_ok']:
        viol.append({'clause': prefix + 'model_configuration_unexpected', 'where': 'ProcessorImpl model checking: contract must hold '
                     'without the two flaws and each flaw must violate its invariant', 'payload': {'layer': 'none'}})
    cov = {'states': res['states'] + res['mc_states'], 'transitions': res['transitions'],
           'traces_validated_against_impl': res['n_traces'], 'samples': res['samples'],
           'evaluations': res['n_events'], 'distinct_nontrivial': res['nontrivial'],
           'rule': 'per description a problem (variables, valid rows) is extracted from the real processor; TLC checks '
                   'ProcessorImpl on it (contract holds without the mask alias / shared cache object, each flaw violates its '
                   'invariant) and emits one shortest operation sequence per distinct abstract state (depth 3 quick / 4 thorough) '
                   'over {Decode(x,create), Enumerate, Stats, Fix, Free, Mutate, Pickle}; each is replayed into a long-lived '
                   'GraphProcessor (complete and fast) with a freshly built twin answering after every observing step, followed '
                   'by an observation block (all vectors with and without create, enumeration); non-trivial = history of length >= 2',
           'problems': res['problems'], 'model_checking': res['mc'][:5], 'histories_replayed': res['n_traces'],
           'clause_counts_before_attribution': res['clause_counts'], 'exhaustive': False, 'what': what}
    return {'level': 'model_checking', 'coverage': cov, 'violations': viol,
            'assumptions': ['ProcessorImpl.tla abstracts the correction to "closest valid row"; its role is to generate histories '
                            'and to show the design-level contract, the verdict on the code comes from the fresh-twin comparison',
                            'hash-seed variation across processes is exercised under C18', 'TLC, CommunityModules Json']}


def json_short(h):
    return ';'.join('%s%s' % (o['op'], (o['x'] or [o['v'], o['val']]) if o['op'] in ('Decode', 'Fix', 'Free') else '') for o in h)[:160]


def check_C05(ctx):
    return _hist_check(ctx, 'C05.', 'decode is a pure function of (graph, fixed, x); instances independent')


def check_C15(ctx):
    return _hist_check(ctx, 'C15.', 'fix restricts exactly, free restores, bad fixes rejected')


def check_C19(ctx):
    from harness import layer_tl
    res = runner.memo('tl', ctx, lambda: layer_tl.run(ctx))
    viol = [{'clause': f['fails'][0][0], 'all_clauses': [c[0] for c in f['fails']],
             'where': ('schedule ' + ' '.join(l for _, l in f['rec']['beh'])) if f['rec']['rkind'] == 'schedule' else
                      'uncontrolled %s limit=%sms dur=%sms inner=%sms' % (f['rec']['kind'], f['rec']['limit_ms'], f['rec']['dur_ms'], f['rec']['inner_ms']),
             'payload': {'layer': 'tl', 'rec': f['rec']}} for f in res['fails'] if any(c[0].startswith('C19.') for c in f['fails'])]
    bad_mc = [n for n, m in res['mc'].items() if not m['as_expected']]
    if bad_mc:
        viol.append({'clause': 'C19.model_configuration_unexpected', 'where': 'TimeLimiter.tla configurations %s' % bad_mc,
                     'payload': {'layer': 'none'}})
    cov = {'states': res['states'], 'transitions': res['transitions'], 'traces_validated_against_impl': res['n_replayed'] + res['n_sweep'],
           'samples': res['samples'], 'evaluations': res['n_replayed'] + res['n_sweep'], 'distinct_nontrivial': res['n_replayed'],
           'rule': 'TLC checks S1-S4 and termination on TimeLimiter.tla for the configurations listed under model_checking (all '
                   'interleavings); every complete behaviour of the single-call model is emitted and, when the director can '
                   'force it through the hook points (adsg_core/_verif.point) and the gates of the workload function, executed '
                   'against the real run_timeout; plus uncontrolled executions with durations 0.1x-2.6x the limit for '
                   'sleeping, raising, own-TimeoutError, native-blocking, interrupt-swallowing and None/0/()-returning functions and nested calls',
           'model_checking': res['mc'], 'behaviours_of_the_model': res['n_behaviours'], 'behaviours_replayed': res['n_replayed'],
           'behaviours_not_forceable': res['n_skipped_unrealisable'],
           'executions_that_left_the_forced_behaviour': res.get('n_left_forced_behaviour', 0), 'uncontrolled_executions': res['n_sweep'], 'exhaustive': False}
    return {'level': 'model_checking', 'coverage': cov, 'violations': viol,
            'assumptions': ['the seven hook points mark the caller steps of the model; get() returning a value or the function\'s '
                            'exception has no hook (its order is implied)', 'a behaviour in which an idle worker thread outlives '
                            'its function until the aliveness test, or finishes on its own after the injection, cannot be forced and is skipped',
                            'native blocking is exercised with time.sleep only', 'nested calls are covered by the model (LEVELS=2) and by '
                            'uncontrolled executions, not by controlled replay', 'TLC, PlusCal translator']}


def check_C13(ctx):
    from harness import layer_cons
    res = runner.memo('cons', ctx, lambda: layer_cons.run(ctx))
    viol = []
    for layer, part in (('graph', res['graph']), ('proc', res['proc'])):
        for f in part['fails']:
            mine = [c for c in f['fails'] if c[0].startswith('C13.')]
            if mine:
                g = f.get('g') or f['trace']['g']
                viol.append({'clause': mine[0][0], 'all_clauses': sorted({c[0] for c in mine}), 'where': '%s layer, event %d' % (layer, mine[0][1]),
                             'payload': {'layer': layer, 'g': g}})
    for f in res['idx_fails']:
        viol.append({'clause': f['fails'][0][0], 'where': 'get_valid_idx_combinations %s' % f['case'], 'payload': {'layer': 'none'}})
    cov = {'states': res['graph']['states'] + res['proc']['states'] + res['idx_states'],
           'transitions': res['graph']['transitions'] + res['proc']['transitions'],
           'traces_validated_against_impl': res['graph']['n_traces'] + res['proc']['n_traces'] + res['idx_cases'],
           'samples': res['graph']['samples'][:1] + res['proc']['samples'][:1],
           'evaluations': res['graph']['n_events'] + res['proc']['n_decodes'] + res['idx_rows'],
           'distinct_nontrivial': res['graph']['nontrivial'],
           'rule': 'bounded-exhaustive: constraint type x 2-3 member choices x 2-3 (quick) / 2-4 options x placement {all permanent, '
                   'member nested in another member, first / later member under an option of a third choice, members mutually '
                   'exclusive} (permutation / non-replacing with fewer options than choices excluded: infeasible by documentation); '
                   'graph level all orders of taking the choices, processor level both encoders with the whole declared space and the '
                   'enumeration; linked design-variable nodes (discrete / continuous, permanent / conditional); '
                   'get_valid_idx_combinations on every index matrix row with <= 3 columns and values -1..2 (quick) / -1..3',
           'descriptions': res['n_graphs'], 'features': res['proc']['features'], 'index_matrix_cases': res['idx_cases'],
           'clause_counts_before_attribution': res['proc']['clause_counts'], 'exhaustive': True}
    return {'level': 'model_checking', 'coverage': cov, 'violations': viol,
            'assumptions': ['ConsOK in DSGSem.tla: indices = positions in the declared option list, over the members active together',
                            'UNORDERED_NOREPL with all members permanent is checked as non-decreasing in get_valid_idx_combinations '
                            '(deliberate, strictness comes from pre-removed options)', 'TLC, CommunityModules Json']}


def check_C08(ctx):
    from harness import layer_persist
    res = runner.memo('persist', ctx, lambda: layer_persist.run(ctx))
    viol = [{'clause': f['fails'][0][0], 'all_clauses': sorted({c[0] for c in f['fails']}), 'where': 'history %s' % json_short2(f['hist']),
             'payload': {'layer': 'persist', 'g': f['g'], 'hist': f['hist']}} for f in res['fails']]
    if not res['mc_ok']:
        viol.append({'clause': 'C08.model_configuration_unexpected', 'where': 'DSGResolve with value semantics must satisfy Persist',
                     'payload': {'layer': 'none'}})
    cov = {'states': res['states'] + res['mc_states'], 'transitions': res['transitions'], 'traces_validated_against_impl': res['n_traces'],
           'samples': res['samples'], 'evaluations': res['n_events'], 'distinct_nontrivial': res['nontrivial'],
           'rule': 'per description TLC checks DSGResolve.tla (Persist and DegreesPersistent hold with value semantics; with node '
                   'attributes shared between objects DegreesPersistent is violated - the design-level form of the known finding) and '
                   'emits one shortest derive sequence per distinct abstract state over {Copy, TakeSel, ApplyConn, SetDV, ConstrainCopy, '
                   'Decode} applied to ANY live object (<= 4 objects, depth 3 quick / 4 thorough); each sequence is replayed on real '
                   'objects and after every operation every live object is observed again (node/edge sets by type, feasible, final, next '
                   'choices, option lists, valid connection sets, connector degree attributes, stored values); non-trivial = sequence of '
                   'length >= 2', 'descriptions': res['n_graphs'], 'model_checking': res['mc'][:6], 'operations': res['ops'],
           'clause_counts_before_attribution': res['clause_counts'], 'exhaustive': False}
    return {'level': 'model_checking', 'coverage': cov, 'violations': viol,
            'assumptions': ['degree attributes are read from the node objects before any call that may recompute them',
                            'operations the real object does not offer (choice not active, no valid set) are recorded as skipped',
                            'TLC, CommunityModules Json']}


def json_short2(h):
    return ';'.join('%s(%s,%s,%s)' % (o['op'], o['p'], o['c'], o['k']) for o in h)[:160]


def check_C17(ctx):
    from harness import layer_metrics
    res = runner.memo('metrics', ctx, lambda: layer_metrics.run(ctx))
    viol = [{'clause': f['fails'][0][0], 'all_clauses': sorted({c[0] for c in f['fails']}), 'where': 'event %d' % f['fails'][0][1],
             'payload': {'layer': 'metrics', 'g': f['g']}} for f in res['fails']]
    cov = {'states': res['states'], 'transitions': res['transitions'], 'traces_validated_against_impl': res['n_traces'],
           'samples': res['samples'], 'evaluations': res['n_evals'], 'distinct_nontrivial': res['nontrivial'],
           'rule': 'descriptions with metric nodes of every direction x reference x declared-type combination under a permanent and '
                   'a conditional node (family) plus seeded random graphs with 2-5 metric nodes; classification is recorded (or the '
                   'construction error), and for up to 40 architectures per description evaluate() is called with evaluators returning '
                   'complete, partial and NaN maps; non-trivial = description with at least one evaluated architecture',
           'descriptions': res['n_graphs'], 'rejected_as_ambiguous_or_infeasible': res['rejected'], 'roles_total': res['roles'],
           'exhaustive': False}
    return {'level': 'model_checking', 'coverage': cov, 'violations': viol,
            'assumptions': ['Metrics.tla MUST/MAY rules: "exists in every architecture" is semantic; between the nodes certainly permanent '
                            'and those in every architecture the implementation may decide either way',
                            'spec-as-oracle (rule level): TLC evaluates the rules, no state-machine content', 'TLC, CommunityModules Json']}


def check_C20(ctx):
    from harness import layer_sup
    res = runner.memo('sup', ctx, lambda: layer_sup.run(ctx))
    viol = [{'clause': f['fails'][0][0], 'all_clauses': sorted({c[0] for c in f['fails']}), 'where': 'event %d' % f['fails'][0][1],
             'payload': {'layer': 'sup', 'g': f['g'], 's': f['s']}} for f in res['fails']]
    cov = {'states': res['states'], 'transitions': res['transitions'], 'traces_validated_against_impl': res['n_traces'],
           'samples': res['samples'], 'evaluations': res['resolves'], 'distinct_nontrivial': res['nontrivial'],
           'rule': 'seeded random source descriptions (nested / conditional choices, incompatibilities) x a generated supplementary graph '
                   'with 1-3 (possibly nested) choices, each mapped by an option mapping (incl. the inactive case) or an existence '
                   'mapping (priority order) declared on nodes and choices of the initialised source graph; every final feasible source '
                   'architecture is resolved; every fifth item is a deliberately malformed variant (incomplete, duplicate, unmapped) and '
                   'every non-final source is tried once; non-trivial = at least two source architectures resolved',
           'items': res['n_items'], 'negative_variants': res['negatives'], 'inactive_source_choice_cases': res['inactive_cases'],
           'nested_supplementary_graphs': res['nested_sup'], 'exhaustive': False}
    return {'level': 'model_checking', 'coverage': cov, 'violations': viol,
            'assumptions': ['SupExpected in Mon_Sup.tla: mapped option per active supplementary choice, result = derivation closure (DSGSem)',
                            'chained supplementary graphs (source = a resolved supplementary graph) are not generated',
                            'rule-level oracle over the architectures produced by the code under test (their correctness is C02)',
                            'TLC, CommunityModules Json']}


def check_C18(ctx):
    from harness import layer_ident
    res = runner.memo('ident', ctx, lambda: layer_ident.run(ctx))
    viol = [{'clause': f['fails'][0][0], 'all_clauses': sorted({c[0] for c in f['fails']}), 'where': 'event %d: %s' % (f['fails'][0][1], json.dumps(f['events'][:1])[:200]),
             'payload': {'layer': 'ident', 'g': f['g']}} for f in res['fails']]
    cov = {'states': res['states'], 'transitions': res['transitions'], 'traces_validated_against_impl': res['n_traces'],
           'samples': res['samples'], 'evaluations': res['steps'] + 3*res['n_graphs'], 'distinct_nontrivial': res['n_graphs'],
           'rule': 'Identity.tla: two sides (a graph and its copy), seven independent structural edits (add node, add edge, remove node, '
                   'remove edge, add incompatibility, add start node, add choice constraint) applied to either side; TLC emits every ordered '
                   'edit sequence up to depth 2 (quick) / 3 (thorough, sampled) with the equality it implies (sets of edits equal); each is '
                   'replayed on real objects and ==, hash compared after every step. Per description also: pickle round trip of graph and '
                   'processor (variables and whole decode mapping), a second interpreter with another PYTHONHASHSEED building the same '
                   'description (fingerprint, variables, decode mapping, exchanged pickle), GML and DOT exports parsed back',
           'descriptions': res['n_graphs'], 'edit_sequences': res['edit_sequences'], 'edit_steps_checked': res['steps'], 'exhaustive': False}
    return {'level': 'model_checking', 'coverage': cov, 'violations': viol,
            'assumptions': ['the seven edits are independent and idempotent on the generated graphs (the editor picks disjoint targets)',
                            'decode mappings are compared for declared spaces of at most 64 vectors', 'TLC']}


def check_C12(ctx):
    from harness import layer_select
    res = runner.memo('select', ctx, lambda: layer_select.run(ctx))
    viol = [{'clause': f['fails'][0][0].split(':')[0], 'all_clauses': sorted({c[0] for c in f['fails']}), 'where': 'settings %d' % f['tid'],
             'payload': {'layer': 'select', 's': f['s'], 'enc': f.get('enc'), 'limit': f.get('limit'), 'eager_max': f.get('eager_max'), 'selected': f.get('selected')}} for f in res['fails']]
    cov = {'states': res['states'], 'transitions': res['transitions'], 'traces_validated_against_impl': res['n_traces'] + res['key_pairs'],
           'samples': res['samples'], 'evaluations': res['selections'] + res['key_pairs'], 'distinct_nontrivial': res['n_traces'],
           'rule': 'SelectorCache.tla is model-checked (transparent with an injective key, violated without; torn read with non-atomic '
                   'writes is a model-level observation only). Cache histories are replayed per settings (hand-picked degenerate ones, '
                   'sampled 2x2 alphabet family, seeded random up to 3x3): cold cache, warm cache, and a cache directory written by another '
                   'interpreter with another hash seed. Time limits: the real limiter with 0.5 ms and 2 s, and a deterministic adversary in place '
                   'of the limiter (every timed call expires / only the count / everything but lazy instantiation / everything but the enumerating candidates / everything but the k-th candidate for every k on the degenerate settings / none / random masks). '
                   'The selected manager\'s decode trace is validated as a working coding (C10 clauses, Mon_ConnCoding); warm = cold and '
                   'loaded-from-other-process = what that process reported are compared on encoder, variables and the whole decode '
                   'mapping; the matrix cache against a fresh computation; pairs of settings differing in one key field for key collisions',
           'settings': res['n_settings'], 'selections': res['selections'], 'degenerate_settings': res['degenerate'],
           'tiny_limit_settings': res['tiny_limit'], 'key_pairs': res['key_pairs'], 'pairs_with_equal_key': res['same_key_pairs'],
           'encoders_selected': res['encoders_selected'], 'scheduled_expiry': res['scheduled_expiry'],
           'model_SelectorCache': res['model'], 'exhaustive': False}
    return {'level': 'model_checking', 'coverage': cov, 'violations': viol,
            'assumptions': ['only the installed numeric stack is exercised (clause "library versions" of the property is an assumption)',
                            'which candidates time out under the tiny limit is not controlled; any selected encoder that is a working coding is accepted',
                            'concurrent writers/readers of one cache directory are explored in the model only', 'TLC, CommunityModules Json']}


CHECKS = {'C12': check_C12, 'C18': check_C18, 'C20': check_C20, 'C17': check_C17, 'C08': check_C08, 'C13': check_C13, 'C19': check_C19, 'C05': check_C05, 'C15': check_C15, 'C11': check_C11, 'C09': check_C09, 'C10': check_C10, 'C01': check_C01, 'C02': check_C02, 'C03': check_C03, 'C04': check_C04, 'C06': check_C06,
          'C07': check_C07, 'C14': check_C14, 'C16': check_C16}


def _replay_select(payload):
    import os, shutil, tempfile
    from harness import drive_select, tlc as _t
    from harness.runner import CACHE
    wd = tempfile.mkdtemp(prefix='selr-', dir=CACHE if os.path.isdir(CACHE) else None)
    try:
        sd = payload['s']
        if 'a' in sd:                                            # a key pair
            r = drive_select.drive_keypair(sd['a'], sd['b'], sd['kind'], tid=0)
            r['rkind'] = 'keypair'
            return _t.run_monitor('Mon_Select', [r], cfg='Mon_Select.cfg', shards=1)['verdicts'][0][2]
        limits = ([payload['limit']] if payload.get('limit') else []) + [2.0, 0.0005, 'sched:all', 'sched:nonlazy', 'sched:lazy']
        traces = []
        eagers = [payload.get('eager_max') or None] * len(limits)
        limits.append('sched:lazy')
        eagers.append(2)
        for i, limit in enumerate(limits):
            t = drive_select.drive(sd, wd, tid=i, limit=limit, other=None, eager_max=eagers[i])
            if 'skip' in t:
                return []
            traces.append(t)
        m1 = _t.run_monitor('Mon_ConnCoding', traces, cfg='Mon_ConnCoding.cfg', shards=1)
        out, recs = [], []
        for t in traces:
            v = m1['verdicts'][t['tid']]
            counts = v[3] if isinstance(v[3], list) else [v[3][k] for k in sorted(v[3])]
            out += [['C12.selected_coding_not_working', c[1]] for c in v[2] if c[0].startswith('C10.') and c[0] != 'C10.variable_with_one_value']
            recs.append({'tid': t['tid'], 'rkind': 'settings', 'sel': t['sel'], 'valid_counts': counts})
        m2 = _t.run_monitor('Mon_Select', recs, cfg='Mon_Select.cfg', shards=1)
        for r in recs:
            out += m2['verdicts'][r['tid']][2]
        return out
    finally:
        shutil.rmtree(wd, ignore_errors=True)


def replay_payload(payload):
    """Re-drive a replay payload on the current tree; returns list of failing clauses [[clause, event], ...]."""
    layer = payload.get('layer')
    if layer == 'graph':
        from harness import layer_graph
        return layer_graph.replay(payload['g'])
    if layer == 'select':
        return _replay_select(payload)
    if layer == 'ident':
        from harness import layer_ident, drive_ident
        import tempfile, shutil, os
        from harness.runner import CACHE
        wd = tempfile.mkdtemp(prefix='identr-', dir=CACHE if os.path.isdir(CACHE) else None)
        try:
            seqs, _, _ = drive_ident.generate_sequences(2, os.path.join(wd, 'gen'))
            ts = [drive_ident.drive_edits(payload['g'], seqs, tid=0), drive_ident.drive_process(payload['g'], wd, tid=1)]
        finally:
            shutil.rmtree(wd, ignore_errors=True)
        from harness import tlc as _t
        mon = _t.run_monitor('Mon_Ident', [t for t in ts if 'skip' not in t], cfg='Mon_Ident.cfg', shards=1)
        return [c for v in mon['verdicts'].values() for c in v[2]]
    if layer == 'sup':
        from harness import layer_sup
        return layer_sup.replay(payload)
    if layer == 'metrics':
        from harness import layer_metrics
        return layer_metrics.replay(payload['g'])
    if layer == 'persist':
        from harness import layer_persist
        return layer_persist.replay(payload)
    if layer == 'tl':
        from harness import layer_tl
        return layer_tl.replay(payload)
    if layer == 'hist':
        from harness import layer_hist
        fails = layer_hist.replay(payload)
        alias = payload.get('alias') or {}
        return fails + [[alias[c[0]], c[1]] for c in fails if c[0] in alias]
    if layer == 'none':
        return []
    if layer == 'coding':
        from harness import layer_coding
        return layer_coding.replay(payload)
    if layer == 'connsem':
        from harness import layer_conn
        return layer_conn.replay(payload['s'])
    if layer == 'proc':
        from harness import layer_proc
        return layer_proc.replay(payload['g'])
    raise ValueError('unknown replay layer %r' % layer)
