"""Per-property check definitions.  Each returns a dict:
   level, coverage (evidence schema keys), assumptions, violations: [{clause, where, payload}], notes."""
from harness import runner


def _graph_layer_check(ctx, prefixes, what):
    from harness import layer_graph
    res = runner.memo('graph', ctx, lambda: layer_graph.run(ctx))
    viol = []
    for f in res['fails']:
        mine = [c for c in f['fails'] if c[0].split('.')[0] in prefixes]
        if mine:
            viol.append({'clause': mine[0][0], 'all_clauses': mine, 'where': 'event %d' % mine[0][1],
                         'payload': {'layer': 'graph', 'g': f['trace']['g'], 'trace': f['trace']}})
    cov = {'states': res['states'], 'transitions': res['transitions'],
           'traces_validated_against_impl': res['n_traces'], 'samples': res['samples'],
           'evaluations': res['n_events'], 'distinct_nontrivial': res['nontrivial'],
           'rule': 'one trace per generated description (theory-page example, bounded-exhaustive family, seeded random '
                   'family); every active choice x every offered option is taken from every reached object (all orders); '
                   'non-trivial = distinct description in which at least one choice was taken by the driver',
           'descriptions': res['n_graphs'], 'events': res['n_events'], 'admissible_architectures': res['adm_total'],
           'truncated_explorations': res['truncated'], 'features': res['features'], 'drift': res['drift'],
           'exhaustive': False, 'what': what}
    return {'level': 'model_checking', 'coverage': cov, 'violations': viol,
            'assumptions': ['DSGSem.tla is a faithful reading of docs/theory.md',
                            'harness/build.py and project.py only translate (no semantics)',
                            'descriptions in which an incompatible pair is joined by a direct derivation edge are outside '
                            'the generated families', 'TLC, CommunityModules Json']}


def check_C02(ctx):
    return _graph_layer_check(ctx, {'C02'}, 'closure, no choice left, all orders, set of reachable finals = admissible set')


def check_C06(ctx):
    return _graph_layer_check(ctx, {'C06'}, 'no conflict in feasible finals, viable options always offered, '
                                            'infeasible only without admissible extension')


CHECKS = {'C02': check_C02, 'C06': check_C06}


def replay_payload(payload):
    """Re-drive a replay payload on the current tree; returns list of failing clauses [[clause, event], ...]."""
    layer = payload.get('layer')
    if layer == 'graph':
        from harness import layer_graph
        return layer_graph.replay(payload['g'])
    raise ValueError('unknown replay layer %r' % layer)
