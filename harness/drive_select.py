"""Driver for C12: automatic encoder selection under cache histories and time limits."""
import json
import os
import pickle
import shutil
import subprocess
import sys

import numpy as np

from harness import drive_conn


def describe(mgr, plist, cap=48):
    """What a user can observe of a selected assignment manager."""
    import itertools
    dvs = [int(dv.n_opts) for dv in mgr.design_vars]
    out = {'encoder': str(mgr.encoder)[:80], 'ndv': dvs, 'map': []}
    size = 1
    for n in dvs:
        size *= n
    xs = [list(x) for x in itertools.product(*[range(n) for n in dvs])] if size <= cap else []
    for pi, ex in enumerate(plist):
        for x in xs:
            try:
                rx, ract, m = mgr.get_matrix(np.array(x, dtype=int), existence=ex)
                out['map'].append([pi, x, [int(v) for v in rx], [bool(a) for a in ract], drive_conn.mat(m) if m is not None else []])
            except Exception as e:
                out['map'].append([pi, x, [], [], [[-9]], type(e).__name__])
    return out


class Adversary:
    """A deterministic stand-in for the time limiter: decides per timed call whether it 'expires'.  Expiry is what the
    real limiter reports by raising TimeoutError; a call that does not expire runs to completion untimed.
        none       no call expires
        all        every call expires
        count      only the counting of all matrices expires
        nonlazy    everything expires except instantiating a lazy encoder
        lazy       instantiating a lazy (or pattern) encoder expires, nothing else does
        enum       everything expires except instantiating an enumerating encoder (the last selection stage decides)
        only:<k>   everything expires except instantiating the k-th candidate tried (k = 0, 1, ...)
        mask:<n>   call i expires iff bit (i mod 24) of n is set"""

    def __init__(self, spec):
        self.spec = spec
        self.i = 0

    def __call__(self, seconds, func, *args, **kwargs):
        from adsg_core.optimization.assign_enc.lazy_encoding import LazyEncoder
        i = self.i
        self.i += 1
        spec = self.spec
        is_inst = getattr(func, '__name__', '') == '_instantiate_manager'
        if spec == 'all':
            expire = True
        elif spec == 'none':
            expire = False
        elif spec == 'count':
            expire = getattr(func, '__name__', '') == '<lambda>'
        elif spec == 'nonlazy':
            expire = not (is_inst and isinstance(args[0], LazyEncoder))
        elif spec == 'lazy':
            expire = is_inst and isinstance(args[0], LazyEncoder)
        elif spec.startswith('only:'):
            # only:<k> -- everything expires except instantiating the k-th candidate in selection order
            # (pattern, then eager / lazy in the order of the stage reached, then enumerating)
            if is_inst:
                self.n_inst = getattr(self, 'n_inst', 0) + 1
            expire = not (is_inst and self.n_inst == int(spec.split(':')[1]) + 1)
        elif spec == 'enum':
            expire = not (is_inst and type(args[0]).__module__.startswith('adsg_core.optimization.assign_enc.enumerating'))
        else:
            expire = bool((int(spec.split(':')[1]) >> (i % 24)) & 1)
        if expire:
            raise TimeoutError
        return func(*args, **kwargs)


def is_sched(limit):
    return isinstance(limit, str)


def limit_ms(limit):
    return -1 if is_sched(limit) else int(limit*1000)


EAGER_MAX = [None]      # configuration: EncoderSelector.n_mat_max_eager for the selections of this process (None = default)


def select(st, limit):
    """limit: seconds (the real time limiter) or 'sched:<spec>' (the adversary above in place of the limiter)."""
    from adsg_core.optimization.assign_enc import selector as selmod
    from adsg_core.optimization.assign_enc.selector import EncoderSelector
    old = EncoderSelector.encoding_timeout
    old_rt = selmod.run_timeout
    old_em = EncoderSelector.n_mat_max_eager
    try:
        if EAGER_MAX[0] is not None:
            EncoderSelector.n_mat_max_eager = EAGER_MAX[0]
        if is_sched(limit):
            EncoderSelector(st).initialize_numba()
            selmod.run_timeout = Adversary(limit.split(':', 1)[1])
        else:
            EncoderSelector.encoding_timeout = limit
        return EncoderSelector(st).get_best_assignment_manager()
    finally:
        EncoderSelector.encoding_timeout = old
        EncoderSelector.n_mat_max_eager = old_em
        selmod.run_timeout = old_rt


def child_main(infile, outfile):
    """Another interpreter (other hash seed): select for every settings into the cache directory given by the
    environment, report what was selected."""
    with open(infile) as fh:
        job = json.load(fh)
    out = []
    for sd, limit in job['items']:
        rec = {'err': '', 'desc': None, 'key': ''}
        try:
            st, plist = drive_conn.make_settings(sd)
            rec['key'] = st.get_cache_key()
            mgr = select(st, limit)
            rec['desc'] = describe(mgr, plist)
        except Exception as e:
            rec['err'] = type(e).__name__ + ':' + str(e)[:100]
        out.append(rec)
    with open(outfile, 'w') as fh:
        json.dump(out, fh)


def drive(sd, workdir, tid=0, limit=2.0, other=None, seed=0, eager_max=None):
    """One settings description through the cache histories {cold, warm, written by another process}.
    eager_max: the configuration value n_mat_max_eager (small: the 'lazy first, eager later' selection stages are used)."""
    EAGER_MAX[0] = eager_max
    import random
    from adsg_core.optimization.assign_enc.matrix import AggregateAssignmentMatrixGenerator
    rng = random.Random(seed*77+tid)
    ev = []
    try:
        st, plist = drive_conn.make_settings(sd)
        gen = AggregateAssignmentMatrixGenerator(st)
    except Exception as e:
        if 'Duplicate node existence patterns' in str(e):
            return {'tid': tid, 'skip': 'duplicate existence patterns'}
        return {'tid': tid, 's': sd, 'ev': [{'e': 'Settings', 'err': type(e).__name__, 'npat': 0}], 'sel': []}
    ev.append({'e': 'Settings', 'err': '', 'npat': len(plist)})
    for pi, ex in enumerate(plist):
        ev.append({'e': 'Pat', 'pi': pi+1, 'err': '', 'cap': drive_conn.mat(gen.get_max_conn_mat(ex)),
                   'so': [[int(i)+1, [int(d) for d in v]] for i, v in sorted(ex.src_n_conn_override.items())],
                   'to': [[int(j)+1, [int(d) for d in v]] for j, v in sorted(ex.tgt_n_conn_override.items())]})
    sel = []
    own = os.path.join(workdir, 'own%d' % tid)
    os.makedirs(own, exist_ok=True)
    old_xdg = os.environ.get('XDG_CACHE_HOME')
    try:
        os.environ['XDG_CACHE_HOME'] = own
        first = None
        # cache history: for half of the settings the very first query on the empty cache asks for ONE pattern only
        if plist and rng.random() < 0.5:
            try:
                list(AggregateAssignmentMatrixGenerator(st).iter_matrices(existence=plist[rng.randrange(len(plist))]))
            except Exception:
                pass
        for hist in ('cold', 'warm'):
            rec = {'e': 'Sel', 'hist': hist, 'limit_ms': limit_ms(limit), 'sched': limit if is_sched(limit) else '', 'err': '', 'desc': {'encoder': '', 'ndv': [], 'map': []},
                   'matrix_cache_ok': True}
            try:
                mgr = select(st, limit)
                rec['desc'] = describe(mgr, plist)
                if hist == 'cold':
                    first = mgr
                    # the selected manager must be a working coding: its decode trace goes to the coding monitor
                    drive_conn._drive_encoder(ev, st, plist, 'selected', 0, None, None, 60, rng, 4, mgr=mgr)
                # matrix cache (warm) against a fresh computation
                cached = AggregateAssignmentMatrixGenerator(st).get_agg_matrix(cache=True)
                fresh = AggregateAssignmentMatrixGenerator(st).get_agg_matrix(cache=False)
                rec['matrix_cache_ok'] = all(ex in cached and np.array_equal(cached[ex], fresh[ex]) for ex in fresh) and len(cached) == len(fresh)
            except Exception as e:
                rec['err'] = type(e).__name__ + ':' + str(e)[:100]
            sel.append(rec)
        if other is not None:
            rec = {'e': 'Sel', 'hist': 'other_process', 'limit_ms': limit_ms(limit), 'sched': limit if is_sched(limit) else '', 'err': other['err'], 'desc': other['desc'] or {'encoder': '', 'ndv': [], 'map': []},
                   'matrix_cache_ok': True, 'loaded': {'encoder': '', 'ndv': [], 'map': []}, 'same_key': other['key'] == st.get_cache_key()}
            if not other['err']:
                # a private copy of the directory the other process wrote: the workers of this harness run at the same
                # time, and the library's cache writes are not atomic (SelectorCache.tla, NonAtomicWrite) -- two workers
                # on the same settings sharing one directory would be concurrent processes, which is not this history
                oth = os.path.join(workdir, 'oth%d' % tid)
                shutil.copytree(other['dir'], oth)
                os.environ['XDG_CACHE_HOME'] = oth
                try:
                    mgr = select(st, limit)             # served from the cache the other process wrote
                    rec['loaded'] = describe(mgr, plist)
                    cached = AggregateAssignmentMatrixGenerator(st).get_agg_matrix(cache=True)
                    fresh = AggregateAssignmentMatrixGenerator(st).get_agg_matrix(cache=False)
                    rec['matrix_cache_ok'] = all(ex in cached and np.array_equal(cached[ex], fresh[ex]) for ex in fresh)
                except Exception as e:
                    rec['err'] = 'load:' + type(e).__name__ + ':' + str(e)[:100]
            sel.append(rec)
    finally:
        if old_xdg is None:
            os.environ.pop('XDG_CACHE_HOME', None)
        else:
            os.environ['XDG_CACHE_HOME'] = old_xdg
        shutil.rmtree(own, ignore_errors=True)
        shutil.rmtree(os.path.join(workdir, 'oth%d' % tid), ignore_errors=True)
    return {'tid': tid, 's': sd, 'ev': ev, 'sel': sel}


def run_other_process(items, workdir, hash_seed):
    """items: [(sd, limit)] -> list of {err, desc, key, dir} computed by another interpreter into its own cache dir."""
    d = os.path.join(workdir, 'other')
    os.makedirs(d, exist_ok=True)
    fin, fout = os.path.join(workdir, 'other_in.json'), os.path.join(workdir, 'other_out.json')
    with open(fin, 'w') as fh:
        json.dump({'items': items}, fh)
    env = dict(os.environ, PYTHONHASHSEED=str(hash_seed), XDG_CACHE_HOME=d)
    p = subprocess.run([sys.executable, '-c', 'import sys; from harness import drive_select; drive_select.child_main(sys.argv[1], sys.argv[2])',
                        fin, fout], env=env, cwd=os.path.dirname(os.path.dirname(os.path.abspath(__file__))),
                       stdout=subprocess.PIPE, stderr=subprocess.PIPE, text=True, timeout=1500)
    if p.returncode != 0:
        raise RuntimeError('other process failed: ' + (p.stderr or '')[-500:])
    with open(fout) as fh:
        out = json.load(fh)
    for r in out:
        r['dir'] = d
    return out


def key_pairs(rng, n):
    """Pairs of settings that differ in exactly one field of the cache key."""
    from harness import gen_conn
    out = []
    # deterministic pairs: no explicit limit on parallel connections vs the value the default takes for the whole settings
    # (the default is derived per existence pattern from the connectors present, an explicit value is not)
    c = gen_conn.conn
    hi = {'dl': [0, 1, 2, 3], 'dmin': 0, 'dmax': 0}
    for src, tgt, ct in (([c(gen_conn.ALPHABET[7], True)], [c(hi, True), c(gen_conn.ALPHABET[7], True)], [True, False]),
                         ([c(gen_conn.ALPHABET[6], True)], [c(gen_conn.ALPHABET[7], True), c(hi, True)], [False, True])):
        pats = gen_conn.all_patterns(1, 2, [False], ct)
        out.append((gen_conn.sdesc(src, tgt, pats=pats, mcp=0), gen_conn.sdesc(src, tgt, pats=pats, mcp=3), 'mcp_default'))
    while len(out) < n:
        a = gen_conn.random_sdesc(rng, max_s=2, max_t=2)
        b = json.loads(json.dumps(a))
        kind = rng.choice(['deg', 'rep', 'excl', 'pattern', 'mcp'])
        if kind == 'deg':
            nd = rng.choice(b['src']+b['tgt'])
            if nd['dl']:
                nd['dl'] = sorted(set(nd['dl']) ^ {3})
                if not nd['dl']:
                    continue
            else:
                nd['dmin'] = nd['dmin']+1 if nd['dmax'] < 0 or nd['dmin'] < nd['dmax'] else max(0, nd['dmin']-1)
        elif kind == 'rep':
            nd = rng.choice(b['src']+b['tgt'])
            nd['rep'] = not nd['rep']
        elif kind == 'excl':
            e = [rng.randrange(len(b['src'])), rng.randrange(len(b['tgt']))]
            if e in b['excl']:
                b['excl'].remove(e)
            else:
                b['excl'].append(e)
        elif kind == 'pattern':
            if not b['pats']:
                continue
            p = rng.choice(b['pats'])
            p['so'] = [] if p['so'] else [[0, [0, 1]]] if p['sx'][0] else p['so']
            if p == [q for q in a['pats'] if q['sx'] == p['sx'] and q['tx'] == p['tx']][:1]:
                continue
        else:
            b['mcp'] = 3 if b['mcp'] != 3 else 1
        if json.dumps(a, sort_keys=True) == json.dumps(b, sort_keys=True):
            continue
        out.append((a, b, kind))
    return out


def drive_keypair(a, b, kind, tid=0):
    from adsg_core.optimization.assign_enc.matrix import AggregateAssignmentMatrixGenerator
    rec = {'tid': tid, 'kind': kind, 'a': a, 'b': b, 'same_key': False, 'err': '', 'pa': [], 'pb': []}
    try:
        sa, pla = drive_conn.make_settings(a)
        sb, plb = drive_conn.make_settings(b)
        rec['same_key'] = sa.get_cache_key() == sb.get_cache_key()
        for st, pl, key in ((sa, pla, 'pa'), (sb, plb, 'pb')):
            gen = AggregateAssignmentMatrixGenerator(st)
            for ex in pl:
                rec[key].append({'cap': drive_conn.mat(gen.get_max_conn_mat(ex)),
                                 'so': [[int(i)+1, [int(d) for d in v]] for i, v in sorted(ex.src_n_conn_override.items())],
                                 'to': [[int(j)+1, [int(d) for d in v]] for j, v in sorted(ex.tgt_n_conn_override.items())]})
    except Exception as e:
        rec['err'] = type(e).__name__ + ':' + str(e)[:80]
    return rec
