"""Selection / cache layer (C12)."""
import collections
import os
import shutil
import tempfile
from harness import drive_select, gen_conn, tlc, layer_coding
from harness.runner import first_per_clause, pmap, CACHE
from harness.layer_conn import family


def degenerate_settings():
    c = gen_conn.conn
    A = gen_conn.ALPHABET
    return [
        gen_conn.sdesc([c(A[1], False)], [c(A[1], False)]),                                  # exactly one connection set
        gen_conn.sdesc([c(A[1], False)], [c(A[0], False)]),                                  # no connection set at all
        gen_conn.sdesc([c(A[1], True)], [c(A[7], False)]),                                   # 1 (rep) -> 0..* : one set
        gen_conn.sdesc([c(A[2], False)], [c(A[2], False)], pats=gen_conn.all_patterns(1, 1, [True], [True])),  # everything may be absent
        gen_conn.sdesc([c(A[3], True)], [c(A[5], True)]),                                    # 1..2 -> {0,2}: one set (2)
    ]


def corpus(ctx):
    rng = ctx.rng('select')
    fam = family()
    n1, n2 = (8, 10) if ctx.quick else (80, 120)
    sds = degenerate_settings() + rng.sample(fam, n1) + [gen_conn.random_sdesc(rng) for _ in range(n2)]
    # (time limit, n_mat_max_eager) configurations: the real limiter tiny / generous; adversary schedules that decide
    # which timed calls expire; the default and a tiny threshold for "few enough matrices to try the eager encoders first"
    combos = [(0.0005, None), (2.0, None), ('sched:lazy', 2), ('sched:all', None), ('sched:nonlazy', None), ('sched:count', 2),
              (2.0, 2), ('sched:none', None), ('sched:lazy', None), ('sched:none', 2), ('sched:enum', None)]
    combos += [('sched:mask:%d' % rng.getrandbits(24), (2 if k % 2 else None)) for k in range(4)]
    nd = len(degenerate_settings())
    limits, eagers = [], []
    for i in range(len(sds)):
        lim, em = combos[i % len(combos)] if i < nd else combos[(i - nd) % len(combos)]
        limits.append(lim)
        eagers.append(em)
    # every degenerate settings once more with only the enumerating candidates finishing: the last selection stage decides
    # (under the real tiny limit this outcome is rare and depends on the machine's load)
    for sd in degenerate_settings():
        sds.append(sd)
        limits.append('sched:enum')
        eagers.append(None)
    # ... and with exactly one candidate finishing, for every candidate in turn: whichever candidate the real limiter
    # leaves standing, what selection returns must be a working coding (sampled settings in the thorough tier too)
    from adsg_core.optimization.assign_enc import encoder_registry as R
    n_cand = len(R.PATTERN_ENCODERS) + len(R.LAZY_ENCODERS) + len(R.EAGER_ENCODERS) + len(R.EAGER_ENUM_ENCODERS)
    for sd in degenerate_settings() + ([] if ctx.quick else rng.sample(fam, 12) + [gen_conn.random_sdesc(rng) for _ in range(12)]):
        for k in range(n_cand):
            sds.append(sd)
            limits.append('sched:only:%d' % k)
            eagers.append(None)
    return sds, limits, eagers


MODEL_CONFIGS = (   # name, KeyInjective, NonAtomicWrite, RobustEncoder, invariants, invariant expected to be violated
    ('as_built', 'TRUE', 'FALSE', '"lazy"', ['Transparent', 'AlwaysSucceeds', 'NoTornRead'], None),
    ('colliding_key', 'FALSE', 'FALSE', '"lazy"', ['Transparent'], 'Transparent'),
    ('no_fallback', 'TRUE', 'FALSE', '"nobody"', ['AlwaysSucceeds'], 'AlwaysSucceeds'),
    ('truncating_write', 'TRUE', 'TRUE', '"lazy"', ['NoTornRead'], 'NoTornRead'),
)


def model_check(workdir):
    """SelectorCache.tla: the as-built configuration satisfies its invariants; each flaw violates its invariant (so the
    invariants are not vacuous)."""
    res = {}
    os.makedirs(workdir, exist_ok=True)
    for name, inj, nonatomic, robust, invs, expect in MODEL_CONFIGS:
        cfg = os.path.join(workdir, name + '.cfg')
        with open(cfg, 'w') as fh:
            fh.write('SPECIFICATION Spec\nCONSTANTS Procs = {"p1", "p2"}  Settings = {"s1", "s2"}  Encoders = {"pattern", "eager", "lazy"}\n'
                     '  KeyInjective = %s  NonAtomicWrite = %s  RobustEncoder = %s\n' % (inj, nonatomic, robust))
            for inv in invs:
                fh.write('INVARIANT %s\n' % inv)
            fh.write('CHECK_DEADLOCK FALSE\n')
        out, wall, rc = tlc.run_tlc('SelectorCache', cfg=cfg, workers=4, timeout=600, workdir=os.path.join(workdir, 'tlc_' + name))
        violated = [i for i in invs if 'Invariant %s is violated' % i in out]
        if not violated and tlc.tlc_failed(out, rc):
            raise tlc.MachineryError('TLC failed on SelectorCache/%s:\n%s' % (name, out[-1500:]))
        if (expect is None and violated) or (expect is not None and expect not in violated):
            raise tlc.MachineryError('SelectorCache/%s: expected %s, TLC reported %s' % (name, expect or 'no violation', violated))
        st, tr = tlc.tlc_stats(out)
        res[name] = {'violated': violated, 'states': st, 'transitions': tr}
    return res


def drive_one(item):
    tid, sd, wd, limit, other, seed, eager_max = item
    try:
        # a tiny n_mat_max_eager sends selection through the 'lazy candidates first, eager candidates later' stages
        # that small settings never reach otherwise
        return drive_select.drive(sd, wd, tid=tid, limit=limit, other=other, seed=seed, eager_max=eager_max)
    except Exception:
        import traceback
        return {'tid': tid, 's': sd, 'crash': traceback.format_exc(limit=8)}


def key_one(item):
    tid, a, b, kind = item
    return drive_select.drive_keypair(a, b, kind, tid=tid)


def run(ctx):
    sds, limits, eagers = corpus(ctx)
    wd = tempfile.mkdtemp(prefix='select-', dir=CACHE if os.path.isdir(CACHE) else None)
    try:
        model = model_check(os.path.join(wd, 'model'))
        others = drive_select.run_other_process(list(zip(sds, limits)), wd, hash_seed=4242+ctx.seed)
        traces = pmap(drive_one, [(i, sd, wd, limits[i], others[i], ctx.seed, eagers[i]) for i, sd in enumerate(sds)], seed=ctx.seed, chunksize=1)
        rng = ctx.rng('keys')
        pairs = drive_select.key_pairs(rng, 60 if ctx.quick else 600)
        keyrecs = pmap(key_one, [(100000+i, a, b, k) for i, (a, b, k) in enumerate(pairs)], seed=ctx.seed)
    finally:
        shutil.rmtree(wd, ignore_errors=True)
    crashed = [t for t in traces if 'crash' in t]
    if crashed:
        raise tlc.MachineryError('selection driver crashed:\n' + crashed[0]['crash'])
    traces = [t for t in traces if 'skip' not in t]
    # stage 1: the selected managers are working codings (C10 clauses) -- also yields the valid-matrix counts
    mon1 = tlc.run_monitor('Mon_ConnCoding', traces, cfg='Mon_ConnCoding.cfg', shards=16, timeout=1800)
    recs = []
    coding_fails = []
    for t in traces:
        v = mon1['verdicts'][t['tid']]
        counts = v[3] if isinstance(v[3], list) else [v[3][k] for k in sorted(v[3])]
        recs.append({'tid': t['tid'], 'rkind': 'settings', 'sel': t['sel'], 'valid_counts': counts, 's': t['s'], 'limit': limits[t['tid']], 'eager_max': eagers[t['tid']] or 0})
        bad = [c for c in v[2] if c[0].startswith('C10.') and c[0] != 'C10.variable_with_one_value']
        if bad:
            coding_fails.append({'tid': t['tid'], 'fails': [['C12.selected_coding_not_working:' + c[0], c[1]] for c in bad[:5]], 's': t['s'],
                                 'enc': layer_coding.enc_of(t, bad[0][1], bad[0][0]), 'limit': limits[t['tid']], 'eager_max': eagers[t['tid']] or 0,
                                 'selected': sorted({s['desc']['encoder'] for s in t['sel']})})
    for r in keyrecs:
        r['rkind'] = 'keypair'
        recs.append(r)
    mon2 = tlc.run_monitor('Mon_Select', recs, cfg='Mon_Select.cfg', shards=8)
    out = {'n_traces': len(traces), 'n_settings': len(sds), 'states': mon1['states'] + mon2['states'] + sum(m['states'] for m in model.values()),
           'transitions': mon1['transitions'] + mon2['transitions'], 'model': model, 'fails': coding_fails, 'key_pairs': len(keyrecs),
           'same_key_pairs': sum(1 for r in keyrecs if r['same_key']), 'selections': sum(len(t['sel']) for t in traces),
           'encoders_selected': collections.Counter(), 'degenerate': 0, 'tiny_limit': sum(1 for l in limits if not isinstance(l, str) and l < 0.01), 'scheduled_expiry': collections.Counter(l.split(':')[1] for l in limits if isinstance(l, str)), 'samples': []}
    for r in recs:
        v = mon2['verdicts'][r['tid']]
        if r['rkind'] == 'settings':
            if all(c <= 1 for c in r['valid_counts']):
                out['degenerate'] += 1
            for s in r['sel']:
                if not s['err']:
                    out['encoders_selected'][s['desc']['encoder'].split('+')[0].strip()[:30]] += 1
        if v[2]:
            out['fails'].append({'tid': r['tid'], 'fails': first_per_clause(v[2]), 's': r.get('s') or {'a': r['a'], 'b': r['b'], 'kind': r['kind']}, 'enc': None,
                                 'limit': r.get('limit'), 'eager_max': r.get('eager_max'), 'selected': sorted({s['desc']['encoder'] for s in r.get('sel', [])})})
    t0 = traces[0]
    out['samples'] = [{'settings': t0['s'], 'selections': [{k: s[k] for k in ('hist', 'limit_ms', 'sched', 'err')} | {'encoder': s['desc']['encoder'], 'ndv': s['desc']['ndv']} for s in t0['sel']]},
                      {'key_pair': {k: keyrecs[0][k] for k in ('kind', 'same_key')}} if keyrecs else {}]
    out['encoders_selected'] = dict(out['encoders_selected'])
    out['scheduled_expiry'] = dict(out['scheduled_expiry'])
    return out
