"""Run TLC on a monitor/spec: shard traces, run shards in parallel (one worker each), parse VERDICT lines.
A machinery failure (TLC error, timeout, missing verdict) raises MachineryError -> exit code 2, never a pass/violation."""
import json
import os
import re
import shutil
import subprocess
import tempfile
import time
from concurrent.futures import ThreadPoolExecutor

VERIF = os.path.dirname(os.path.dirname(os.path.abspath(__file__)))
SPEC = os.path.join(VERIF, 'spec')
CACHE = os.path.join(VERIF, '.cache')
JAR = '/opt/veriftools/tla/tla2tools.jar'


class MachineryError(Exception):
    pass


def scratch(prefix='run'):
    os.makedirs(CACHE, exist_ok=True)
    return tempfile.mkdtemp(prefix=prefix+'-', dir=CACHE)


def _classpath():
    # the `tlc` wrapper knows where the community modules are; reuse it
    return None


def run_tlc(module, cfg=None, env=None, workers=1, timeout=900, extra=(), workdir=None, heap='2g'):
    """Run TLC on spec/<module>.tla. Returns (stdout, wall_s). Raises MachineryError on failure to run."""
    wd = workdir or scratch('tlc')
    meta = os.path.join(wd, 'meta')
    cmd = ['tlc', '-workers', str(workers), '-metadir', meta, '-noGenerateSpecTE']
    if cfg:
        cmd += ['-config', cfg]
    cmd += list(extra) + [module]
    e = dict(os.environ)
    os.makedirs(wd, exist_ok=True)
    # (the JVM's temporary directory is the run's own scratch directory: TLC leaves an empty tlc-<n> directory per run)
    e['JAVA_TOOL_OPTIONS'] = e.get('JAVA_TOOL_OPTIONS', '') + ' -Xmx%s -XX:+UseParallelGC -Djava.io.tmpdir=%s' % (heap, wd)
    if env:
        e.update(env)
    t0 = time.time()
    try:
        p = subprocess.run(cmd, cwd=SPEC, env=e, stdout=subprocess.PIPE, stderr=subprocess.STDOUT, timeout=timeout,
                           text=True)
    except subprocess.TimeoutExpired:
        subprocess.run(['pkill', '-f', meta], check=False)
        raise MachineryError('TLC timeout after %ss on %s' % (timeout, module))
    finally:
        if workdir is None:
            shutil.rmtree(wd, ignore_errors=True)
    return p.stdout, time.time()-t0, p.returncode


# ---- parsing TLC values printed by PrintT -------------------------------------------------------------------

def parse_value(s, i=0):
    """Parse a TLA+ value as printed by TLC (ints, strings, booleans, <<>> tuples, {} sets, [a |-> ..] records,
    (k :> v @@ ...) functions).  Returns (python value, next index)."""
    n = len(s)
    while i < n and s[i].isspace():
        i += 1
    if s.startswith('<<', i):
        i += 2
        out = []
        while True:
            while s[i].isspace():
                i += 1
            if s.startswith('>>', i):
                return out, i+2
            v, i = parse_value(s, i)
            out.append(v)
            while s[i].isspace():
                i += 1
            if s[i] == ',':
                i += 1
    if s[i] == '{':
        i += 1
        out = []
        while True:
            while s[i].isspace():
                i += 1
            if s[i] == '}':
                return out, i+1
            v, i = parse_value(s, i)
            out.append(v)
            while s[i].isspace():
                i += 1
            if s[i] == ',':
                i += 1
    if s[i] == '[':
        i += 1
        out = {}
        while True:
            while s[i].isspace():
                i += 1
            if s[i] == ']':
                return out, i+1
            m = re.compile(r'([A-Za-z_][A-Za-z0-9_]*)\s*\|->').match(s, i)
            key = m.group(1)
            i = m.end()
            v, i = parse_value(s, i)
            out[key] = v
            while s[i].isspace():
                i += 1
            if s[i] == ',':
                i += 1
    if s[i] == '(':
        i += 1
        out = {}
        while True:
            while s[i].isspace():
                i += 1
            if s[i] == ')':
                return out, i+1
            k, i = parse_value(s, i)
            while s[i].isspace():
                i += 1
            assert s.startswith(':>', i), s[i:i+20]
            i += 2
            v, i = parse_value(s, i)
            out[json.dumps(k) if not isinstance(k, (int, str)) else k] = v
            while s[i].isspace():
                i += 1
            if s.startswith('@@', i):
                i += 2
    if s[i] == '"':
        j = i+1
        while s[j] != '"':
            j += 2 if s[j] == '\\' else 1
        return s[i+1:j], j+1
    m = re.compile(r'(-?\d+)\.\.(-?\d+)').match(s, i)
    if m:
        return list(range(int(m.group(1)), int(m.group(2))+1)), m.end()
    m = re.compile(r'-?\d+').match(s, i)
    if m:
        return int(m.group(0)), m.end()
    m = re.compile(r'TRUE|FALSE').match(s, i)
    if m:
        return m.group(0) == 'TRUE', m.end()
    m = re.compile(r'[A-Za-z_][A-Za-z0-9_]*').match(s, i)
    if m:
        return m.group(0), m.end()
    raise ValueError('cannot parse TLC value at %r' % s[i:i+40])


def extract_printed(out, tag):
    """All values printed as <<"tag", ...>> (possibly spanning lines)."""
    res = []
    pat = re.compile(r'<<\s*"%s"' % re.escape(tag))
    i = 0
    while True:
        m = pat.search(out, i)
        if not m:
            return res
        v, i = parse_value(out, m.start())
        res.append(v)


STATS_RE = re.compile(r'(\d+) states generated, (\d+) distinct states found')


def tlc_stats(out):
    m = None
    for m in STATS_RE.finditer(out):
        pass
    if not m:
        return 0, 0
    return int(m.group(2)), int(m.group(1))   # distinct states, generated (transitions)


def tlc_failed(out, rc):
    if 'Error:' in out or 'TLC threw' in out or 'Parsing or semantic analysis failed' in out:
        return True
    return rc not in (0,)


def run_monitor(module, traces, cfg=None, shards=16, timeout=900, env=None, keep=None, tag='VERDICT'):
    """Validate traces (list of dicts with 'tid') with the monitor module. Returns dict:
       verdicts: tid -> parsed VERDICT tuple, states, transitions, wall."""
    if not traces:
        return {'verdicts': {}, 'states': 0, 'transitions': 0, 'wall': 0.0}
    wd = scratch('mon')
    shards = max(1, min(shards, len(traces)))
    # balance by size
    order = sorted(range(len(traces)), key=lambda i: -len(traces[i].get('ev', [])))
    buckets = [[] for _ in range(shards)]
    for n, i in enumerate(order):
        buckets[n % shards].append(traces[i])
    files = []
    for k, bk in enumerate(buckets):
        f = os.path.join(wd, 'shard%d.json' % k)
        with open(f, 'w') as fh:
            json.dump(bk, fh)
        files.append(f)
    t0 = time.time()

    def one(k):
        e = {'TRACE_FILE': files[k]}
        if env:
            e.update(env)
        return run_tlc(module, cfg=cfg, env=e, workers=1, timeout=timeout, workdir=os.path.join(wd, 'w%d' % k))

    try:
        with ThreadPoolExecutor(max_workers=min(16, shards)) as ex:
            results = list(ex.map(one, range(shards)))
        verdicts = {}
        states = trans = 0
        for k, (out, wall, rc) in enumerate(results):
            if tlc_failed(out, rc):
                if keep:
                    shutil.copy(files[k], keep)
                raise MachineryError('TLC failed on %s shard %d (rc=%s):\n%s' % (module, k, rc, out[-3000:]))
            for v in extract_printed(out, tag):
                verdicts[v[1]] = v
            s, t = tlc_stats(out)
            states += s
            trans += t
        missing = [t['tid'] for t in traces if t['tid'] not in verdicts]
        if missing:
            raise MachineryError('%s: no verdict for traces %s' % (module, missing[:10]))
        return {'verdicts': verdicts, 'states': states, 'transitions': trans, 'wall': time.time()-t0}
    finally:
        shutil.rmtree(wd, ignore_errors=True)
