"""Driver for the processor layer (C01, C03, C04, C07, C14, C16 and the straight-line part of C05/C15):
builds a GraphProcessor per encoder from a description, enumerates / samples the declared design space, decodes,
re-decodes the corrected vector, enumerates the valid designs, and writes down what came back."""
import itertools
import math
import random

import numpy as np

from harness.build import build, SkipInput
from harness.gd import UNIT
from harness.project import q


def inst_obs(b, d):
    """Projection of a decoded architecture instance."""
    from adsg_core.graph.graph_edges import EdgeType
    inv, chinv, ccinv = b.inv, b.chinv, b.ccinv
    gr = d.graph
    der, con = [], []
    for s, t, _, data in gr.edges(keys=True, data=True):
        if s in inv and t in inv:
            et = data.get('type')
            if et == EdgeType.DERIVES:
                der.append([inv[s], inv[t]])
            elif et == EdgeType.CONNECTS:
                con.append([inv[s], inv[t]])
    dvv = []
    for n, v in d.des_var_values.items():
        if n in inv:
            nd = b.g['nodes'][inv[n]-1]
            dvv.append([inv[n], int(v) if nd['disc'] else q(v)])
    return {'nodes': sorted(inv[n] for n in gr.nodes if n in inv), 'der': sorted(der), 'con': sorted(con),
            'dvv': sorted(dvv), 'feasible': bool(d.feasible), 'final': bool(d.final),
            'left': sorted([chinv[n] for n in gr.nodes if n in chinv]) + sorted([100+ccinv[n] for n in gr.nodes if n in ccinv])}


NO_INST = {'nodes': [], 'der': [], 'con': [], 'dvv': [], 'feasible': False, 'final': False, 'left': []}


def dv_obs(b, p):
    from adsg_core.graph.adsg_nodes import SelectionChoiceNode, ConnectionChoiceNode, DesignVariableNode
    out = []
    for dv in p.des_vars:
        n = dv.node
        rec = {'kind': 'other', 'c': 0, 'opts': [], 'n': 0, 'disc': bool(dv.is_discrete), 'lo': 0, 'hi': 0,
               'cond': bool(dv.conditionally_active), 'name': dv.name}
        if isinstance(n, SelectionChoiceNode):
            rec.update(kind='sel', c=b.chinv.get(n, 0), opts=[b.inv.get(o, 0) for o in dv.options], n=dv.n_opts)
        elif isinstance(n, ConnectionChoiceNode):
            rec.update(kind='conn', c=b.ccinv.get(n, 0), n=dv.n_opts)
        elif isinstance(n, DesignVariableNode):
            rec.update(kind='dv', c=b.inv.get(n, 0))
            if dv.is_discrete:
                rec.update(n=dv.n_opts)
            else:
                rec.update(lo=q(dv.bounds[0]), hi=q(dv.bounds[1]))
        out.append(rec)
    return out


def xq(dvs, x):
    """design vector -> integers (continuous entries in 1/1024 units)"""
    return [int(round(v)) if d['disc'] else q(float(v)) for d, v in zip(dvs, x)]


def xreal(dvs, xi):
    return [v if d['disc'] else v/UNIT for d, v in zip(dvs, xi)]


def declared_space(dvs, rng, cap):
    """Every vector of the declared space when small; otherwise corners, single-coordinate extremes and a sample.
    Continuous variables contribute {lo, mid, hi, one interior dyadic point}."""
    axes = []
    for d in dvs:
        if d['disc']:
            axes.append(list(range(d['n'])))
        else:
            lo, hi = d['lo'], d['hi']
            axes.append(sorted({lo, hi, (lo+hi)//2, lo+(hi-lo)//4}))
    size = 1
    for a in axes:
        size *= len(a)
    if size <= cap:
        return [list(x) for x in itertools.product(*axes)], True
    xs = set()
    for x in itertools.product(*[[a[0], a[-1]] for a in axes][:12]):
        x = list(x)+[a[0] for a in axes[12:]]
        xs.add(tuple(x))
        if len(xs) > cap//4:
            break
    while len(xs) < cap:
        xs.add(tuple(rng.choice(a) for a in axes))
    return [list(x) for x in sorted(xs)], False


def out_of_range(dvs, xs, rng, per_var=3):
    """Vectors whose DESIGN-VARIABLE-NODE entries lie outside the declared range (C16: far below / above the bounds,
    negative and too large indices); the other entries are taken from in-range vectors."""
    out = []
    if not xs:
        return out
    for i, d in enumerate(dvs):
        if d['kind'] != 'dv':
            continue
        if d['disc']:
            vals = [-1, d['n'], d['n']+3]
        else:
            w = max(d['hi']-d['lo'], 1024)
            vals = [d['lo']-w-1024, d['hi']+3*w, d['lo']-1]
        bases = [xs[0], xs[-1]] + [rng.choice(xs) for _ in range(max(0, per_var-2))]
        for v in vals:
            for base in bases:
                x = list(base)
                x[i] = v
                out.append(x)
    return out


def direct_sets(b, inst, rng, max_nodes=3):
    """C16, second sentence: setting a value directly on a graph.  Every request is made on a fresh copy."""
    from adsg_core.graph.adsg_nodes import DesignVariableNode
    ev = []
    nodes = sorted((n for n in inst.graph.nodes if isinstance(n, DesignVariableNode) and n in b.inv), key=lambda n: b.inv[n])[:max_nodes]
    for n in nodes:
        nd = b.g['nodes'][b.inv[n]-1]
        if nd['disc']:
            reqs = [-2*UNIT, 0, UNIT+410, (nd['k']-1)*UNIT, nd['k']*UNIT, (nd['k']+5)*UNIT]
        else:
            w = max(nd['hi']-nd['lo'], UNIT)
            reqs = [nd['lo']-5*w, nd['lo'], (nd['lo']+nd['hi'])//2, nd['hi'], nd['hi']+1, nd['hi']+40*w]
        for rq in reqs:
            e = {'e': 'SetDv', 'n': b.inv[n], 'req': rq, 'err': '', 'vals': []}
            try:
                d = inst.copy()
                d.set_des_var_value(n, rq/UNIT if (rq % UNIT or not nd['disc']) else rq//UNIT)
                e['vals'] = sorted([b.inv[m], q(float(v))] for m, v in d.des_var_values.items() if m in b.inv)
            except Exception as ex:
                e['err'] = type(ex).__name__
                e['msg'] = str(ex)[:120]
            ev.append(e)
    return ev


def fixed_decodes(b, enc_type, dvs, xs, rng, max_vars=3, max_x=4):
    """Decodes while ONE variable is fixed, on a processor of its own (C16 / C07 under fixed variables: what the corrected
    vector reports for an absent design-variable node is its own canonical value)."""
    from adsg_core.optimization.graph_processor import GraphProcessor
    ev = []
    try:
        p2 = GraphProcessor(b.dsg, encoder_type=enc_type)
    except Exception:
        return ev
    cand = [j for j, d in enumerate(dvs) if d['kind'] in ('sel', 'dv')][:max_vars]
    for j in cand:
        d = dvs[j]
        val = 0 if d['disc'] else d['lo']/UNIT
        try:
            p2.fix_des_var(list(p2.all_des_vars)[j], val)
        except Exception:
            continue
        try:
            free = dv_obs(b, p2)
            if len(free) != len(dvs)-1:
                continue
            bases = [xs[0], xs[-1]] + [rng.choice(xs) for _ in range(max(0, max_x-2))]
            for base in bases:
                xi = [v for i, v in enumerate(base) if i != j]
                for create in (True, False):
                    e = {'e': 'FixDec', 'fixed': j+1, 'x': xi, 'create': create, 'err': '', 'rx': [], 'ract': [], 'dvs': free}
                    try:
                        _, rx, ract = p2.get_graph(xreal(free, xi), create=create)
                        e['rx'] = xq(free, rx)
                        e['ract'] = [bool(a) for a in ract]
                    except Exception as ex:
                        e['err'] = type(ex).__name__
                    ev.append(e)
        finally:
            try:
                p2.free_des_var(list(p2.all_des_vars)[j])
            except Exception:
                pass
    return ev


def decode(b, p, dvs, xi, create):
    ev = {'e': 'Dec', 'x': xi, 'create': create, 'err': '', 'rx': [], 'ract': [], 'inst': NO_INST, 'hasinst': False}
    try:
        inst, rx, ract = p.get_graph(xreal(dvs, xi), create=create)
    except Exception as e:
        ev['err'] = type(e).__name__
        ev['msg'] = str(e)[:200]
        return ev, None
    ev['rx'] = xq(dvs, rx)
    ev['ract'] = [bool(a) for a in ract]
    if inst is not None:
        ev['inst'] = inst_obs(b, inst)
        ev['hasinst'] = True
    return ev, inst


def drive(g, tid=0, cap=600, seed=0, encoders=('complete', 'fast'), redecode=True):
    from adsg_core.optimization.graph_processor import GraphProcessor
    from adsg_core.optimization.hierarchy import SelChoiceEncoderType
    ENC = {'complete': SelChoiceEncoderType.COMPLETE, 'fast': SelChoiceEncoderType.FAST}
    rng = random.Random(seed*1000003+tid)
    try:
        b = build(g)
    except SkipInput as e:
        return {'tid': tid, 'skip': str(e)}
    except Exception as e:
        return {'tid': tid, 'skip': 'builder raised %s (reported by the graph layer)' % type(e).__name__}
    ev = []
    init_feasible = bool(b.dsg.feasible)
    for enc in encoders:
        new = {'e': 'New', 'enc': enc, 'err': '', 'dvs': [], 'init_feasible': init_feasible}
        try:
            p = GraphProcessor(b.dsg, encoder_type=ENC[enc])
            dvs = dv_obs(b, p)
            new['dvs'] = dvs
        except Exception as e:
            new['err'] = type(e).__name__
            new['msg'] = str(e)[:200]
            ev.append(new)
            continue
        ev.append(new)
        xs, complete = declared_space(dvs, rng, cap)
        first_inst = None
        oob = out_of_range(dvs, xs, rng)
        for n_x, xi in enumerate(xs + oob):
            if n_x >= len(xs):
                # an out-of-range request is also decoded WITHOUT materialising the instance (the vector-only path clamps too)
                e0, _ = decode(b, p, dvs, xi, False)
                ev.append(e0)
            e1, inst = decode(b, p, dvs, xi, True)
            ev.append(e1)
            if inst is not None and first_inst is None and e1['inst']['dvv']:
                first_inst = inst
            if e1['err'] or not redecode:
                continue
            # the corrected vector is decoded again, with and without materialising the instance
            if e1['rx'] != xi:
                e2, _ = decode(b, p, dvs, e1['rx'], True)
                ev.append(e2)
            e3, _ = decode(b, p, dvs, e1['rx'], False)
            ev.append(e3)
        if first_inst is not None and enc == 'complete':
            ev += direct_sets(b, first_inst, rng)
        if any(d['kind'] == 'dv' for d in dvs):
            ev += fixed_decodes(b, ENC[enc], dvs, xs, rng)
        # enumeration of the valid designs (complete encoder; None when unavailable)
        en = {'e': 'Enum', 'enc': enc, 'err': '', 'avail': False, 'rows': [], 'n_valid': -1, 'n_declared': -1,
              'ratio_ppm': -1, 'space_complete': complete}
        try:
            res = p.get_all_discrete_x()
            if res is not None:
                X, A = res
                en['avail'] = True
                en['rows'] = [{'x': xq(dvs, list(X[i])), 'act': [bool(a) for a in A[i]]} for i in range(X.shape[0])]
            if enc == 'complete':   # counts and statistics are only claimed for the complete encoder (C04)
                en['n_valid'] = int(p.get_n_valid_designs())
                nd = int(p.get_n_design_space())
                en['n_declared'] = nd if nd <= 1000000 else -1      # TLC integers are 32-bit: larger spaces are not compared
                r = p.get_imputation_ratio(include_cont=False)
                en['ratio_ppm'] = int(round(r*1000000)) if math.isfinite(r) and r < 2000 and nd <= 2000 else -2
        except Exception as e:
            en['err'] = type(e).__name__
            en['msg'] = str(e)[:200]
        ev.append(en)
        if en['avail'] and len(en['rows']) <= cap:
            for row in en['rows']:
                e1, _ = decode(b, p, dvs, row['x'], True)
                e1['e'] = 'DecRow'
                e1['rowact'] = row['act']
                ev.append(e1)
    return {'tid': tid, 'g': g, 'ev': ev}
