"""Schedule-controlled replay of TLC behaviours of TimeLimiter.tla into the real run_timeout (C19).

The hook points in run_timeout (adsg_core/_verif.point, enabled by ADSG_CORE_VERIF=1) and the gates of the
instrumented workload function all report to a Gatekeeper that releases the *controllable* events strictly in the order
of the behaviour.  Events the implementation offers no hook for (the blocking get() returning a value or the
function's exception) need no control: their order is implied.
"""
import threading
import time
import traceback

CALLER_HOOK = {'tl.timed_out': 'WaitTimedOut', 'tl.pool_exited': 'ExitPool', 'tl.inject': 'Inject'}
WORKER_EVENTS = {'Begin', 'FinishOk', 'FinishExc', 'FinishOwnTimeout', 'Die', 'Swallow'}
CONTROLLED = set(CALLER_HOOK.values()) | WORKER_EVENTS | {'JoinOrNotAlive'}


class Unrealised(Exception):
    pass


class Gatekeeper:
    def __init__(self, order, patience=4.0):
        self.order = list(order)          # controllable events in behaviour order
        self.pos = 0
        self.cv = threading.Condition()
        self.log = []                     # (seq, thread name, event) as actually released
        self.patience = patience
        self.failed = None
        self.worker = None                # the pool's worker thread (known from the tl.submit hook)

    def reach(self, event):
        """Block until `event` is the next controllable event, then consume it."""
        with self.cv:
            t0 = time.time()
            while True:
                if self.failed:
                    raise Unrealised(self.failed)
                if self.pos < len(self.order) and self.order[self.pos] == 'Exit' and self.worker is not None \
                        and not self.worker.is_alive():
                    self.pos += 1
                    self.log.append((len(self.log), 'director', 'Exit'))
                    self.cv.notify_all()
                    continue
                if self.pos < len(self.order) and self.order[self.pos] == event:
                    self.pos += 1
                    self.log.append((len(self.log), threading.current_thread().name, event))
                    self.cv.notify_all()
                    return
                if event not in self.order[self.pos:]:
                    self.failed = 'event %s reached but not (any more) in the schedule at position %d' % (event, self.pos)
                    self.cv.notify_all()
                    raise Unrealised(self.failed)
                if time.time()-t0 > self.patience:
                    self.failed = 'timeout waiting to release %s (head %s)' % (event, self.order[self.pos])
                    self.cv.notify_all()
                    raise Unrealised(self.failed)
                self.cv.wait(0.05)

    def next_worker_event(self):
        with self.cv:
            for e in self.order[self.pos:]:
                if e in WORKER_EVENTS:
                    return e
            return None


def project(behaviour):
    """Controllable events of a behaviour [[proc, label], ...] (LEVELS = 1).  The end of the worker THREAD ('Exit') is
    only controllable where it matters: when the model says NotAlive, the director holds the caller at the hook after
    the pool exit until the worker thread is really gone (Exit is placed right before ExitPool)."""
    labs = [l for _, l in behaviour]
    out = []
    for lab in labs:
        if lab in WORKER_EVENTS or lab in CALLER_HOOK.values():
            out.append(lab)
        elif lab in ('Join', 'NotAlive'):
            out.append('JoinOrNotAlive')
    if 'NotAlive' in labs and 'ExitPool' in out:
        # NotAlive: the whole worker run precedes the aliveness test; the caller is held at the hook after the pool exit
        # until the worker thread is gone, so every worker event and the thread's Exit come before ExitPool
        i = out.index('ExitPool')
        late = [l for l in out[i+1:] if l in WORKER_EVENTS]
        out = [l for k, l in enumerate(out) if not (k > i and l in WORKER_EVENTS)]
        i = out.index('ExitPool')
        out[i:i] = late + ['Exit']
    return out


def realisable(behaviour):
    """Behaviours the director can force."""
    labs = [l for _, l in behaviour]
    if 'Inject' in labs:
        # delivery happens at the worker's very next bytecode: it cannot finish on its own after the injection
        after = [l for l in labs[labs.index('Inject')+1:] if l in WORKER_EVENTS]
        if after and after[0] not in ('Die', 'Swallow'):
            return False
        # an idle worker thread that has finished the function cannot be kept alive until the aliveness test
        if any(l in ('FinishOk', 'FinishExc', 'FinishOwnTimeout') for l in labs[:labs.index('Inject')]):
            return False
    if 'NotAlive' in labs:
        # NotAlive needs the worker function finished before the aliveness test
        i = labs.index('NotAlive')
        if not any(l in ('FinishOk', 'FinishExc', 'FinishOwnTimeout') for l in labs[:i]):
            return False
        if 'Begin' not in labs[:i]:
            return False
    if 'ExitPoolInterrupted' in labs or 'WaitInterrupted' in labs:
        return False
    return True


class Workload:
    """The function run under the limiter.  It reports its own begin / branch / end and keeps `executing` exact."""

    def __init__(self, gk):
        self.gk = gk
        self.executing = 0
        self.lock = threading.Lock()
        self.events = []
        self.swallowed = 0

    def __call__(self):
        with self.lock:
            self.executing += 1
        try:
            self.gk.reach('Begin')
            while True:
                nxt = self.gk.next_worker_event()
                if nxt == 'FinishOk':
                    self.gk.reach('FinishOk')
                    return 'the-value'
                if nxt == 'FinishExc':
                    self.gk.reach('FinishExc')
                    raise ValueError('own-exception')
                if nxt == 'FinishOwnTimeout':
                    self.gk.reach('FinishOwnTimeout')
                    raise TimeoutError('own-timeout-message')
                if nxt in ('Die', 'Swallow'):
                    consumed = False
                    try:
                        # wait until the injection has been released, then spin in bytecode for delivery (the exception
                        # may also be delivered between two waits inside reach(), i.e. before the event is consumed)
                        self.gk.reach(nxt)
                        consumed = True
                        t0 = time.time()
                        while time.time()-t0 < 3.0:
                            pass
                        raise Unrealised('injected exception was never delivered')
                    except Unrealised:
                        raise
                    except BaseException as e:      # the injected asynchronous exception (class is CPython's business)
                        self.events.append(('delivered', type(e).__name__))
                        if not consumed:
                            self.gk.reach(nxt)
                        if nxt == 'Die':
                            raise
                        self.swallowed += 1
                        continue
                if nxt is None:
                    raise Unrealised('worker has no event left in the schedule')
        finally:
            with self.lock:
                self.executing -= 1


def run_schedule(behaviour, expected_outcome, tid=0):
    """Execute one behaviour against the real run_timeout. Returns the observation record."""
    import adsg_core._verif as V
    from adsg_core.optimization.assign_enc.time_limiter import run_timeout
    order = project(behaviour)
    labs = [l for _, l in behaviour]
    gk = Gatekeeper(order)
    wl = Workload(gk)
    hooks = []

    def director(name, **info):
        hooks.append(name)
        if name == 'tl.submit':
            gk.worker = threading._active.get(info.get('worker'))
        if name in CALLER_HOOK:
            gk.reach(CALLER_HOOK[name])
        elif name == 'tl.raise':
            gk.reach('JoinOrNotAlive')

    timed = 'WaitTimedOut' in labs
    limit = 0.08 if timed else 6.0
    rec = {'tid': tid, 'beh': [[p, l] for p, l in behaviour], 'expected': expected_outcome, 'outcome': 'none', 'exc': '',
           'exc_args': '', 'value_ok': False, 'running_after': False, 'caller_interrupted': False, 'later_ok': False,
           'unrealised': '', 'hooks': [], 'released': [], 'delivered': []}
    V.install(director)
    try:
        try:
            v = run_timeout(limit, wl)
            rec['outcome'] = 'value'
            rec['value_ok'] = (v == 'the-value')
        except TimeoutError as e:
            rec['outcome'] = 'own_exc' if e.args == ('own-timeout-message',) else 'timeout'
            rec['exc'], rec['exc_args'] = 'TimeoutError', repr(e.args)
        except ValueError as e:
            rec['outcome'] = 'own_exc' if e.args == ('own-exception',) else 'other'
            rec['exc'], rec['exc_args'] = 'ValueError', repr(e.args)
        except Unrealised as e:
            rec['unrealised'] = str(e)
        except BaseException as e:
            rec['outcome'] = 'interrupted'
            rec['exc'], rec['exc_args'] = type(e).__name__, repr(e.args)[:80]
        # ---- the facts the property talks about, observed right after the call returned ----
        rec['running_after'] = wl.executing > 0
        try:
            t0 = time.time()
            while time.time()-t0 < 0.05:      # bytecode: a stray asynchronous exception aimed at the caller surfaces here
                pass
        except BaseException as e:
            rec['caller_interrupted'] = True
            rec['exc'] += '+stray:' + type(e).__name__
        V.install(None)
        try:
            rec['later_ok'] = run_timeout(2.0, lambda: 7) == 7
        except BaseException as e:
            rec['later_ok'] = False
    finally:
        V.install(None)
    if gk.failed and not rec['unrealised']:
        rec['unrealised'] = gk.failed
    if not rec['unrealised'] and gk.pos != len(order):
        rec['unrealised'] = 'schedule not consumed: %d of %d' % (gk.pos, len(order))
    rec['hooks'] = hooks
    rec['released'] = [e for _, _, e in gk.log]
    rec['delivered'] = [e[1] for e in wl.events]
    rec['swallowed'] = wl.swallowed
    # give a worker that is still (wrongly) running a moment to end so that runs do not disturb each other
    t0 = time.time()
    while wl.executing > 0 and time.time()-t0 < 4.0:
        time.sleep(0.01)
    return rec


# ---- uncontrolled sweep and nested calls ------------------------------------------------------------------------

RETURNS = {'retnone': None, 'retzero': 0, 'retempty': ()}


def sweep_case(case):
    """One uncontrolled execution: kind in {sleep, raise, owntimeout, swallow, native, nested, retnone, retzero, retempty}
    (the last three return None / 0 / () - a result is a result whatever its truth value)."""
    from adsg_core.optimization.assign_enc.time_limiter import run_timeout
    kind, limit, dur = case['kind'], case['limit'], case['dur']
    state = {'executing': 0, 'begin': None, 'end': None, 'swallowed': 0}
    lock = threading.Lock()

    def body():
        with lock:
            state['executing'] += 1
        state['begin'] = time.time()
        try:
            if kind == 'raise':
                time.sleep(dur)
                raise ValueError('own-exception')
            if kind == 'owntimeout':
                time.sleep(dur)
                raise TimeoutError('own-timeout-message')
            if kind == 'ownmemerr':
                time.sleep(dur)
                raise MemoryError('own-memory-error')
            if kind == 'native':
                time.sleep(dur)                       # one blocking native call
                return 'the-value'
            t0 = time.time()
            while time.time()-t0 < dur:
                try:
                    time.sleep(0.002)
                except BaseException:
                    if kind == 'swallow' and state['swallowed'] == 0:
                        state['swallowed'] += 1
                        continue
                    raise
            return RETURNS.get(kind, 'the-value')
        finally:
            state['end'] = time.time()
            with lock:
                state['executing'] -= 1

    def nested():
        return run_timeout(case['inner_limit'], body)

    fn = nested if kind == 'nested' else body
    rec = dict(case, outcome='none', exc='', exc_args='', running_after=False, caller_interrupted=False, later_ok=False,
               finished_before_return=False, elapsed_ms=0, ended_ms=-1)
    t_start = time.time()
    try:
        v = run_timeout(limit, fn)
        want = RETURNS.get(kind, 'the-value')
        rec['outcome'] = 'value' if (v == want and type(v) is type(want)) else 'other'
    except TimeoutError as e:
        rec['outcome'] = 'own_exc' if e.args == ('own-timeout-message',) else 'timeout'
        rec['exc_args'] = repr(e.args)
    except ValueError as e:
        rec['outcome'] = 'own_exc' if e.args == ('own-exception',) else 'other'
    except MemoryError as e:
        rec['outcome'] = 'own_exc' if e.args == ('own-memory-error',) else 'other'
    except BaseException as e:
        rec['outcome'] = 'interrupted'
        rec['exc'] = type(e).__name__
    t_ret = time.time()
    rec['running_after'] = state['executing'] > 0
    rec['finished_before_return'] = state['end'] is not None and state['end'] <= t_ret
    rec['elapsed_ms'] = int((t_ret-t_start)*1000)
    # when the function body really ended, measured from the start of the call (-1: it had not ended when the call returned)
    rec['ended_ms'] = int((state['end']-t_start)*1000) if (state['end'] is not None and state['end'] <= t_ret) else -1
    try:
        t0 = time.time()
        while time.time()-t0 < 0.02:
            pass
    except BaseException:
        rec['caller_interrupted'] = True
    try:
        rec['later_ok'] = run_timeout(2.0, lambda: 7) == 7
    except BaseException:
        rec['later_ok'] = False
    t0 = time.time()
    while state['executing'] > 0 and time.time()-t0 < 3.0:
        time.sleep(0.01)
    return rec
