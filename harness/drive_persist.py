"""Persistence of graph objects (C08): TLC-generated derive sequences (DSGResolve.tla) replayed over a family of live
DSG objects; after every operation EVERY live object is observed again through the observation list of the property."""
import json
import os

from harness.build import build
from harness.project import obs_graph, q
from harness import tlc


def deg_attrs(b, d):
    """Degree attributes of the connector nodes of d, read straight from the node objects (before any call that may
    recompute them)."""
    from adsg_core.graph.adsg_nodes import ConnectorNode
    import math
    out = []
    for n in d.graph.nodes:
        if isinstance(n, ConnectorNode) and n in b.inv:
            dmax = n.deg_max
            out.append([b.inv[n], [int(v) for v in (n.deg_list or [])], -1 if n.deg_min is None else int(n.deg_min),
                        -2 if dmax is None else (-1 if dmax == math.inf else int(dmax)), bool(n.repeated_allowed)])
    return sorted(out)


def full_obs(b, d, degs=None):
    degs = deg_attrs(b, d) if degs is None else degs      # first: plain attribute reads
    o = obs_graph(b, d)
    o['degs'] = degs
    sets = []
    for cn in [c for c in d.graph.nodes if c in b.ccinv]:
        try:
            offered = sorted(sorted([b.inv[s], b.inv[t]] for s, t in edges) for edges in cn.iter_conn_edges(d))
            sets.append({'k': b.ccinv[cn], 'err': '', 'sets': offered[:60]})
        except Exception as e:
            sets.append({'k': b.ccinv[cn], 'err': type(e).__name__, 'sets': []})
    o['connsets'] = sets
    o['dvv'] = sorted([b.inv[n], int(v) if b.g['nodes'][b.inv[n]-1]['disc'] else q(v)] for n, v in d.des_var_values.items() if n in b.inv)
    o['ncons'] = len(d.get_choice_constraints())
    # connection choices the object lists among its next choices
    o['nextcc'] = sorted(b.ccinv[c] for c in (d.get_ordered_next_choice_nodes() if o['feasible'] else []) if c in b.ccinv)
    return o


def generate(g, depth, workdir, max_objs=4, timeout=600):
    os.makedirs(workdir, exist_ok=True)
    gf = os.path.join(workdir, 'g.json')
    with open(gf, 'w') as fh:
        json.dump(g, fh)
    res = {}
    for name, shared, check in (('value_semantics', 'FALSE', True), ('shared_node_attributes', 'TRUE', True), ('gen', 'TRUE', False)):
        cfg = os.path.join(workdir, name+'.cfg')
        with open(cfg, 'w') as fh:
            fh.write('SPECIFICATION Spec\nCONSTANTS MaxObjs = %d  MaxDepth = %d  SharedAttrs = %s\n' % (max_objs, depth, shared))
            if check:
                fh.write('PROPERTY Persist\nINVARIANT DegreesPersistent\n')
            else:
                fh.write('VIEW CoreView\nINVARIANT EmitHist\n')
            fh.write('CONSTRAINT Bound\nCHECK_DEADLOCK FALSE\n')
        out, wall, rc = tlc.run_tlc('DSGResolve', cfg=cfg, env={'GRAPH_FILE': gf}, workers=1 if not check else 4,
                                    timeout=timeout, workdir=os.path.join(workdir, 'tlc_'+name))
        violated = 'is violated' in out or 'was violated' in out
        if not violated and tlc.tlc_failed(out, rc):
            raise tlc.MachineryError('TLC failed on DSGResolve/%s:\n%s' % (name, out[-1500:]))
        st, tr = tlc.tlc_stats(out)
        res[name] = {'violated': violated, 'states': st, 'transitions': tr}
        if not check:
            seen = {}
            for v in tlc.extract_printed(out, 'HIST'):
                key = json.dumps(v[1], sort_keys=True)
                if key not in seen:
                    seen[key] = v[2]
            res['hists'] = list(seen.values())
    return res


class Replayer:
    def __init__(self, g):
        self.g = g
        self.b = build(g)
        self.objs = [self.b.dsg]
        self.proc = None
        self.rows = None
        self.ev = []
        self.observe({'op': 'Init', 'p': 0, 'c': 0, 'k': 0}, '', False)

    def observe(self, op, err, skipped):
        # pass 1: plain attribute reads of every object; pass 2: the computing observers, NEWEST object first, so that an
        # older object is asked right after a sibling with other members was (node objects are shared between them)
        degs = [deg_attrs(self.b, d) for d in self.objs]
        obs = [None]*len(self.objs)
        for i in reversed(range(len(self.objs))):
            obs[i] = full_obs(self.b, self.objs[i], degs[i])
        self.ev.append({'op': op['op'], 'p': op['p'], 'c': op['c'], 'k': op['k'], 'err': err, 'skipped': skipped, 'obs': obs})

    def step(self, op):
        from adsg_core.graph.adsg_nodes import DesignVariableNode, SelectionChoiceNode
        from adsg_core.graph.choice_constraints import ChoiceConstraintType
        b = self.b
        name, p = op['op'], op['p']
        d = self.objs[p-1] if 1 <= p <= len(self.objs) else None
        err, skipped, new = '', False, None
        try:
            if d is None:
                skipped = True
            elif name == 'Copy':
                new = d.copy()
            elif name == 'TakeSel':
                c = b.ch.get(op['c'])
                o = b.node.get(op['k'])
                if d.feasible and c in d.graph.nodes and c in d.get_ordered_next_choice_nodes() and o in d.get_option_nodes(c):
                    new = d.get_for_apply_selection_choice(c, o)
                else:
                    skipped = True
            elif name == 'ApplyConn':
                cn = b.cc.get(op['c'])
                if cn in d.graph.nodes and d.feasible:
                    sets = list(cn.iter_conn_edges(d))
                    if sets:
                        new = d.get_for_apply_connection_choice(cn, sets[-1] if op['k'] == 1 else sets[0])
                    else:
                        skipped = True
                else:
                    skipped = True
            elif name == 'SetDV':
                dvs = [n for n in d.graph.nodes if isinstance(n, DesignVariableNode)]
                if dvs:
                    n = sorted(dvs, key=lambda x: x.name)[0]
                    d.set_des_var_value(n, 1 if n.is_discrete else sum(n.bounds)/2)
                else:
                    skipped = True
            elif name == 'ConstrainCopy':
                act = [c for c in d.get_ordered_next_choice_nodes() if isinstance(c, SelectionChoiceNode) and c in d.graph.nodes] \
                    if d.feasible else []
                free = [c for c in act if d.is_constrained_choice(c) is None]
                pair = None
                for i in range(len(free)):
                    for j in range(i+1, len(free)):
                        if len(d.get_option_nodes(free[i])) == len(d.get_option_nodes(free[j])) >= 2:
                            pair = [free[i], free[j]]
                            break
                    if pair:
                        break
                if pair:
                    kind = {1: ChoiceConstraintType.LINKED, 2: ChoiceConstraintType.PERMUTATION,
                            3: ChoiceConstraintType.UNORDERED_NOREPL}.get(op['k'], ChoiceConstraintType.LINKED)
                    members = pair
                    if op['k'] in (2, 3):     # every free active choice with that option count (may be unsatisfiable)
                        n = len(d.get_option_nodes(pair[0]))
                        members = [c for c in free if len(d.get_option_nodes(c)) == n][:3]
                    cp = d.copy()
                    new = cp.constrain_choices(kind, members)
                else:
                    skipped = True
            elif name == 'Decode' and not self.objs[0].feasible:
                skipped = True         # no processor exists for a design space that is infeasible to begin with
            elif name == 'Decode':
                if self.proc is None:
                    from adsg_core.optimization.graph_processor import GraphProcessor
                    self.proc = GraphProcessor(self.objs[0])
                dvs = self.proc.des_vars
                from adsg_core.graph.adsg_nodes import DesignVariableNode as _DV
                if op['k'] == 3:       # the architecture of Decode(0) again, with other design-variable-node values
                    x = [(dv.n_opts-1 if isinstance(dv.node, _DV) else 0) if dv.is_discrete else dv.bounds[1] for dv in dvs]
                else:
                    x = [min(op['k'], dv.n_opts-1) if dv.is_discrete else (dv.bounds[0] if op['k'] == 0 else sum(dv.bounds)/2) for dv in dvs]
                inst, _, _ = self.proc.get_graph(x)
                new = inst
            else:
                skipped = True
        except Exception as e:
            err = type(e).__name__
        if new is not None:
            self.objs.append(new)
        self.observe(op, err, skipped)


def replay(g, hist, tid=0):
    r = Replayer(g)
    for op in hist:
        r.step(op)
    return {'tid': tid, 'g': g, 'hist': hist, 'ev': r.ev}
