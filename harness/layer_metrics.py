"""Metrics layer (C17)."""
import collections
from harness import drive_metrics, gen_graph, tlc
from harness.runner import first_per_clause, pmap


def corpus(ctx):
    rng = ctx.rng('metrics')
    n = 120 if ctx.quick else 6000
    return drive_metrics.metric_family() + [
        drive_metrics.add_metric_nodes(gen_graph.random_graph(rng, nmin=4, nmax=9, max_space=16, max_ch=3, n_inc=(0, 1)), rng)
        for _ in range(n)]


def drive_one(item):
    tid, g, seed = item
    try:
        return drive_metrics.drive(g, tid=tid, seed=seed)
    except Exception:
        import traceback
        return {'tid': tid, 'g': g, 'crash': traceback.format_exc(limit=8)}


def run(ctx, gs=None):
    gs = corpus(ctx) if gs is None else gs
    traces = pmap(drive_one, [(i, g, ctx.seed) for i, g in enumerate(gs)], seed=ctx.seed)
    crashed = [t for t in traces if 'crash' in t]
    if crashed:
        raise tlc.MachineryError('metrics driver crashed:\n' + crashed[0]['crash'])
    traces = [t for t in traces if 'skip' not in t]
    mon = tlc.run_monitor('Mon_Metrics', traces, cfg='Mon_Metrics.cfg', shards=16)
    out = {'n_traces': len(traces), 'n_graphs': len(gs), 'states': mon['states'], 'transitions': mon['transitions'], 'fails': [],
           'n_evals': sum(1 for t in traces for e in t['ev'] if e['e'] == 'Eval'), 'nontrivial': 0, 'rejected': 0, 'samples': [],
           'roles': collections.Counter()}
    for t in traces:
        v = mon['verdicts'][t['tid']]
        m = t['ev'][0]
        if m['err']:
            out['rejected'] += 1
        out['roles']['objectives'] += len(m['objectives'])
        out['roles']['constraints'] += len(m['constraints'])
        if len(t['ev']) > 3:
            out['nontrivial'] += 1
        if v[2]:
            out['fails'].append({'tid': t['tid'], 'fails': first_per_clause(v[2]), 'g': t['g']})
    for t in traces[:1] + traces[-1:]:
        out['samples'].append({'metric_nodes': [[i+1, n['mdir'], n['hasref'], n['mtype']] for i, n in enumerate(t['g']['nodes']) if n['t'] == 'met'],
                               'classification': {k: t['ev'][0][k] for k in ('err', 'objectives', 'constraints')},
                               'first_eval': {k: t['ev'][1][k] for k in ('mode', 'nodes', 'given', 'obj', 'con')} if len(t['ev']) > 1 else None})
    out['roles'] = dict(out['roles'])
    return out


def replay(g):
    t = drive_metrics.drive(g, tid=0)
    if 'skip' in t:
        return []
    mon = tlc.run_monitor('Mon_Metrics', [t], cfg='Mon_Metrics.cfg', shards=1)
    return mon['verdicts'][0][2]
