"""Connection-coding layer (C10, and the activeness clauses of C07 at encoder level):
settings corpus -> every registered encoder x imputers -> Mon_ConnCoding."""
import collections
import json
from harness import gen_conn, tlc
from harness.runner import pmap
from harness.layer_conn import family


def corpus(ctx):
    rng = ctx.rng('coding')
    fam = family()
    pat = gen_conn.pattern_family()
    if ctx.quick:
        return rng.sample(fam, 18) + [gen_conn.random_sdesc(rng) for _ in range(18)] + pat[-6:] + rng.sample(pat[:-6], 8)
    return rng.sample(fam, 180) + [gen_conn.random_sdesc(rng) for _ in range(180)] + pat


def drive_one(item):
    from harness import drive_conn
    tid, sd, seed, cap, allimp = item
    try:
        return drive_conn.drive_coding(sd, tid=tid, seed=seed, cap=cap, all_imputers=allimp)
    except Exception:
        import traceback
        return {'tid': tid, 's': sd, 'crash': traceback.format_exc(limit=8)}


def validate(traces, shards=16):
    crashed = [t for t in traces if 'crash' in t]
    if crashed:
        raise tlc.MachineryError('driver crashed outside a recorded call:\n' + crashed[0]['crash'])
    traces = [t for t in traces if 'skip' not in t]
    mon = tlc.run_monitor('Mon_ConnCoding', traces, cfg='Mon_ConnCoding.cfg', shards=shards, timeout=5400)
    return traces, mon


def enc_of(t, at, clause=''):
    i = min(at-1, len(t['ev'])-1)
    if at > len(t['ev']):       # end-of-trace clause belongs to the last encoder
        i = len(t['ev'])-1
    else:
        # EndClauses are tagged at the NEXT Enc event: they belong to the previous encoder
        if t['ev'][i]['e'] == 'Enc' and clause != 'C10.encoder_construction_raised':
            i -= 1
    while i >= 0 and t['ev'][i]['e'] != 'Enc':
        i -= 1
    e = t['ev'][i]
    return {'kind': e['kind'], 'idx': e['idx'], 'name': e['name'], 'imp': e['imp'].split('(')[0]}


def run(ctx, sds=None):
    sds = corpus(ctx) if sds is None else sds
    cap = 60 if ctx.quick else 200
    traces = pmap(drive_one, [(i, s, ctx.seed, cap, not ctx.quick) for i, s in enumerate(sds)], seed=ctx.seed,
                  chunksize=1)
    traces, mon = validate(traces)
    out = {'n_traces': len(traces), 'n_settings': len(sds), 'states': mon['states'], 'transitions': mon['transitions'],
           'fails': [], 'encoders': 0, 'refused': 0, 'decodes': 0, 'nontrivial': 0, 'samples': [],
           'by_kind': collections.Counter(), 'classes': collections.Counter()}
    for t in traces:
        v = mon['verdicts'][t['tid']]
        nenc = sum(1 for e in t['ev'] if e['e'] == 'Enc' and not e['refused'] and not e['err'])
        out['encoders'] += nenc
        out['refused'] += sum(1 for e in t['ev'] if e['e'] == 'Enc' and e['refused'])
        out['decodes'] += sum(1 for e in t['ev'] if e['e'] == 'CDec')
        for e in t['ev']:
            if e['e'] == 'Enc' and not e['refused'] and not e['err']:
                out['by_kind'][e['kind']] += 1
        if sum(v[3]) >= 2 and nenc > 0:
            out['nontrivial'] += 1
        seen = set()
        for c, at in v[2]:
            enc = enc_of(t, at, c)
            key = (c, enc['kind'], enc['idx'], enc['imp'])
            out['classes']['|'.join(map(str, key))] += 1
            if key in seen:
                continue
            seen.add(key)
            out['fails'].append({'tid': t['tid'], 'clause': c, 'at': at, 'enc': enc, 's': t['s']})
    for t in traces[:1]:
        out['samples'].append({'settings': t['s'], 'events': [
            {k: e.get(k) for k in ('e', 'kind', 'name', 'imp', 'ndv', 'pi', 'x', 'rx', 'ract', 'm', 'refused') if k in e}
            for e in t['ev'][3:12]]})
    out['by_kind'] = dict(out['by_kind'])
    out['classes'] = dict(out['classes'])
    return out


def replay(payload):
    """Re-drive the settings for the one encoder (all imputers) named in the payload; failing clauses for it."""
    from harness import drive_conn
    enc = payload.get('enc')
    flt = (lambda k, i: k == enc['kind'] and i == enc['idx']) if enc else None
    t = drive_conn.drive_coding(payload['s'], tid=0, cap=200, all_imputers=True, enc_filter=flt, max_pats=16)
    if 'skip' in t:
        return []
    _, mon = validate([t], shards=1)
    out = []
    for c, at in mon['verdicts'][0][2]:
        e = enc_of(t, at, c)
        if enc is None or enc.get('imp') in (None, '*', e['imp']):
            out.append([c, at])
    return out
