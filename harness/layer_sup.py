"""Supplementary-graph layer (C20)."""
import collections
from harness import drive_sup, gen_graph, tlc
from harness.gd import empty
from harness.runner import first_per_clause, pmap


def corpus(ctx):
    rng = ctx.rng('sup')
    n = 250 if ctx.quick else 12000
    items = []
    for i in range(n):
        g = gen_graph.random_graph(rng, nmin=4, nmax=9, max_space=16, max_ch=3, n_inc=(0, 1), p_shared=0)
        neg = rng.choice(['incomplete', 'duplicate', 'unmapped']) if i % 5 == 4 else ''
        items.append((g, rng.randrange(10**9), neg))
    return items


def drive_one(item):
    tid, (g, seed, neg) = item
    try:
        return drive_sup.drive(g, seed, neg, tid=tid)
    except Exception:
        import traceback
        return {'tid': tid, 'g': g, 'crash': traceback.format_exc(limit=8)}


def run(ctx, items=None):
    items = corpus(ctx) if items is None else items
    traces = pmap(drive_one, list(enumerate(items)), seed=ctx.seed)
    crashed = [t for t in traces if 'crash' in t]
    if crashed:
        raise tlc.MachineryError('sup driver crashed:\n' + crashed[0]['crash'])
    traces = [t for t in traces if 'skip' not in t]
    mon = tlc.run_monitor('Mon_Sup', traces, cfg='Mon_Sup.cfg', shards=16)
    out = {'n_traces': len(traces), 'n_items': len(items), 'states': mon['states'], 'transitions': mon['transitions'], 'fails': [],
           'resolves': 0, 'negatives': 0, 'inactive_cases': 0, 'nested_sup': 0, 'nontrivial': 0, 'samples': []}
    for t in traces:
        v = mon['verdicts'][t['tid']]
        nres = sum(1 for e in t['ev'] if e['e'] == 'Resolve')
        out['resolves'] += nres
        out['negatives'] += 1 if t['s']['neg'] else 0
        if nres >= 2:
            out['nontrivial'] += 1
        if any(c['origin'] != 1 for c in t['s']['g']['ch']):
            out['nested_sup'] += 1
        for e in t['ev']:
            if e['e'] == 'Resolve':
                for m in t['s']['maps']:
                    if m['kind'] == 'opt' and t['g']['ch'][m['src']-1]['origin'] not in e['src_nodes']:
                        out['inactive_cases'] += 1
        if v[2]:
            out['fails'].append({'tid': t['tid'], 'fails': first_per_clause(v[2]), 'g': t['g'], 's': t['s']})
    for t in traces[:2]:
        out['samples'].append({'source': {k: t['g'][k] for k in ('n', 'der', 'ch', 'inc')}, 'sup': {k: t['s']['g'][k] for k in ('n', 'der', 'ch')},
                               'maps': t['s']['maps'], 'neg': t['s']['neg'], 'events': t['ev'][:4]})
    return out


def replay(payload):
    """payload: g, s (the generated sup description is re-used verbatim)."""
    from harness.build import build
    sb = build(payload['g'])
    ev = []
    sd = payload['s']
    d, nodes, inv, chs, stage, err = drive_sup.build_sup(sd, sb)
    ev.append({'e': 'Build', 'stage': stage, 'err': err, 'neg': sd['neg']})
    if d is not None:
        for inst, sel in drive_sup.source_finals(sb):
            if not (inst.final and inst.feasible):
                continue
            e = {'e': 'Resolve', 'err': '', 'src_nodes': sorted(sb.inv[n] for n in inst.graph.nodes if n in sb.inv),
                 'src_sel': sorted([c, o] for c, o in sel.items()), 'final': False, 'nodes': [], 'der': [], 'left': []}
            try:
                r = d.resolve(inst)
                e['final'] = bool(r.final)
                e['nodes'] = sorted(inv[n] for n in r.graph.nodes if n in inv)
                e['der'] = sorted([inv[s], inv[t]] for s, t in r.graph.edges() if s in inv and t in inv)
                e['left'] = sorted(k for k, c in chs.items() if c in r.graph.nodes)
            except Exception as ex:
                e['err'] = type(ex).__name__
            ev.append(e)
    t = {'tid': 0, 'g': payload['g'], 's': sd, 'ev': ev}
    mon = tlc.run_monitor('Mon_Sup', [t], cfg='Mon_Sup.cfg', shards=1)
    return mon['verdicts'][0][2]
