"""Common infrastructure of ./check: context, hashing, memo, process pool, findings, replay files, evidence."""
import hashlib
import json
import multiprocessing as mp
import os
import random
import shutil
import sys
import tempfile
import time

import threading

_default_thread_hook = threading.excepthook


def _thread_hook(args):
    # the pool worker thread that run_timeout interrupts dies with CPython's SystemError for the injected exception
    # instance; that is the limiter working as designed, not something to print thousands of times
    if args.exc_type is SystemError and 'KeyboardInterrupt' in str(args.exc_value):
        return
    _default_thread_hook(args)


threading.excepthook = _thread_hook

VERIF = os.path.dirname(os.path.dirname(os.path.abspath(__file__)))
REPO = os.environ.get('VERIF_REPO', '/repo')
CACHE = os.path.join(VERIF, '.cache')
NPROC = int(os.environ.get('VERIF_NPROC', '16'))


class Ctx:
    def __init__(self, pid, tier, seed):
        self.pid = pid
        self.tier = tier
        self.seed = seed
        self.t0 = time.time()
        self.notes = []

    @property
    def quick(self):
        return self.tier == 'quick'

    def rng(self, salt=''):
        return random.Random('%s/%s/%s' % (self.seed, self.tier, salt))


def _hash_files(paths):
    h = hashlib.sha256()
    for p in sorted(paths):
        h.update(p.encode())
        with open(p, 'rb') as fh:
            h.update(fh.read())
    return h.hexdigest()


def repo_hash():
    paths = []
    for root, dirs, files in os.walk(os.path.join(REPO, 'adsg_core')):
        dirs[:] = [d for d in dirs if d not in ('__pycache__', 'tests')]
        paths += [os.path.join(root, f) for f in files if f.endswith('.py')]
    return _hash_files(paths)


def verif_hash():
    paths = []
    for sub in ('spec', 'harness'):
        for root, dirs, files in os.walk(os.path.join(VERIF, sub)):
            dirs[:] = [d for d in dirs if d != '__pycache__']
            paths += [os.path.join(root, f) for f in files if f.endswith(('.py', '.tla', '.cfg'))]
    return _hash_files(paths)


_HASHES = {}


def memo(name, ctx, fn, seeded=True):
    """Memoise a (driver + monitor) result per (corpus name, tier, seed, repo tree, verification machinery).
    A changed tree or changed machinery changes the key, so nothing stale is ever reused."""
    if os.environ.get('VERIF_NOMEMO'):
        return fn()
    if 'r' not in _HASHES:
        _HASHES['r'] = repo_hash()
        _HASHES['v'] = verif_hash()
    key = '%s-%s-%s-%s-%s' % (name, ctx.tier, ctx.seed if seeded else 'x', _HASHES['r'][:16], _HASHES['v'][:16])
    d = os.path.join(CACHE, 'memo')
    os.makedirs(d, exist_ok=True)
    path = os.path.join(d, key+'.json')
    if os.path.exists(path):
        try:
            with open(path) as fh:
                return json.load(fh)
        except Exception:
            pass
    res = fn()
    fd, tmp = tempfile.mkstemp(dir=d)
    with os.fdopen(fd, 'w') as fh:
        json.dump(res, fh)
    os.replace(tmp, path)
    # keep the memo directory small
    files = sorted((os.path.join(d, f) for f in os.listdir(d)), key=os.path.getmtime)
    for f in files[:-40]:
        try:
            os.remove(f)
        except OSError:
            pass
    return res


# ---- process pool with isolated library caches ------------------------------------------------------------

def _init_worker(base, seed):
    wid = mp.current_process()._identity[0] if mp.current_process()._identity else 0
    d = os.path.join(base, 'w%d' % wid)
    os.makedirs(d, exist_ok=True)
    os.environ['XDG_CACHE_HOME'] = d
    os.environ['ADSG_CORE_VERIF'] = '1'
    import numpy as np
    np.random.seed((seed*7919 + wid) % (2**31))
    random.seed(seed*104729 + wid)
    try:
        from adsg_core.optimization.assign_enc.selector import EncoderSelector
        EncoderSelector.encoding_timeout = 10
    except Exception:
        pass


def _call(args):
    fn_mod, fn_name, item = args
    mod = __import__(fn_mod, fromlist=[fn_name])
    return getattr(mod, fn_name)(item)


def pmap(fn, items, seed=0, procs=None, chunksize=None):
    """Map a module-level function over items in worker processes, each with a private library cache directory."""
    items = list(items)
    if not items:
        return []
    procs = min(procs or NPROC, len(items))
    base = tempfile.mkdtemp(prefix='pool-', dir=_ensure_cache())
    try:
        if procs <= 1:
            _init_worker(base, seed)
            return [fn(it) for it in items]
        ctx = mp.get_context('fork')
        with ctx.Pool(procs, initializer=_init_worker, initargs=(base, seed)) as pool:
            cs = chunksize or max(1, len(items)//(procs*8))
            return pool.map(_call, [(fn.__module__, fn.__name__, it) for it in items], chunksize=cs)
    finally:
        shutil.rmtree(base, ignore_errors=True)


def _ensure_cache():
    os.makedirs(CACHE, exist_ok=True)
    return CACHE


def first_per_clause(fails):
    """[[clause, event], ...] as printed by a monitor -> one entry per distinct clause (its first event).  Never cut a
    verdict by position: a trace that fails many events of one clause must not hide another clause."""
    first = {}
    for c in sorted(fails, key=lambda f: (f[1], f[0])):
        first.setdefault(c[0], c[1])
    return [[c, i] for c, i in first.items()]


# ---- known findings -----------------------------------------------------------------------------------------

def load_findings():
    p = os.path.join(VERIF, 'known_findings.json')
    if not os.path.exists(p):
        return []
    with open(p) as fh:
        return json.load(fh)['findings']


# ---- replay files ---------------------------------------------------------------------------------------------

def write_replay(pid, payload):
    d = os.path.join(os.environ.get('VERIF_SCRATCH_OUT') or VERIF, 'replays', pid)   # VERIF_SCRATCH_OUT: runs against seeded changes
    os.makedirs(d, exist_ok=True)
    s = json.dumps(payload, sort_keys=True)
    name = hashlib.sha256(s.encode()).hexdigest()[:16]+'.json'
    path = os.path.join(d, name)
    with open(path, 'w') as fh:
        fh.write(s)
    # bound the directory
    files = sorted((os.path.join(d, f) for f in os.listdir(d)), key=os.path.getmtime)
    for f in files[:-50]:
        os.remove(f)
    return path


# ---- evidence -----------------------------------------------------------------------------------------------

def write_evidence(ctx, level, coverage, assumptions, violations, extra=None):
    d = os.path.join(os.environ.get('VERIF_SCRATCH_OUT') or VERIF, 'evidence')
    os.makedirs(d, exist_ok=True)
    ev = {'property_id': ctx.pid, 'tier': ctx.tier, 'seed': int(ctx.seed), 'level': level, 'coverage': coverage,
          'assumptions': assumptions, 'wall_s': round(time.time()-ctx.t0, 2), 'violations': int(violations)}
    if extra:
        ev.update(extra)
    with open(os.path.join(d, ctx.pid+'.json'), 'w') as fh:
        json.dump(ev, fh, indent=1, sort_keys=True)
    return ev
