"""gdesc -> real adsg_core objects, through the documented builder API only.

No semantics here: this file only calls add_edges / add_selection_choice / add_connection_choice /
add_incompatibility_constraint / set_start_nodes / constrain_choices and remembers which real object
corresponds to which gdesc id.
"""
import math
from adsg_core.graph.adsg_basic import BasicDSG
from adsg_core.graph.adsg_nodes import (NamedNode, ConnectorNode, ConnectorDegreeGroupingNode, DesignVariableNode,
                                        MetricNode, MetricType, SelectionChoiceNode, ConnectionChoiceNode)
from adsg_core.graph.choice_constraints import ChoiceConstraintType
from harness.gd import UNIT, normalise

CT = {'linked': ChoiceConstraintType.LINKED, 'perm': ChoiceConstraintType.PERMUTATION,
      'unord': ChoiceConstraintType.UNORDERED, 'unordnr': ChoiceConstraintType.UNORDERED_NOREPL}
MT = {'none': MetricType.NONE, 'obj': MetricType.OBJECTIVE, 'con': MetricType.CONSTRAINT, 'auto': None}


class SkipInput(Exception):
    """The description cannot be expressed through the builder API as intended; not a finding."""


class Built:
    """The real graph plus the id maps (gdesc id <-> node object)."""

    def __init__(self, g):
        self.g = g
        self.node = {}      # id -> node object
        self.inv = {}       # node object -> id
        self.ch = {}        # choice id (1-based) -> SelectionChoiceNode
        self.chinv = {}
        self.cc = {}        # connection choice id (1-based) -> ConnectionChoiceNode
        self.ccinv = {}
        self.dsg = None     # initialised graph (after set_start_nodes + constraints)
        self.dsg_raw = None  # builder graph before set_start_nodes

    def nid(self, nodeobj):
        return self.inv.get(nodeobj)


def make_node(i, nd):
    name = 'N%02d' % i
    t = nd['t']
    if t == 'plain':
        return NamedNode(name)
    if t == 'conn':
        if nd['dl']:
            return ConnectorNode(name, deg_list=list(nd['dl']), repeated_allowed=nd['rep'])
        dmax = math.inf if nd['dmax'] < 0 else nd['dmax']
        return ConnectorNode(name, deg_min=nd['dmin'], deg_max=dmax, repeated_allowed=nd['rep'])
    if t == 'grp':
        return ConnectorDegreeGroupingNode(name)
    if t == 'dv':
        if nd['disc']:
            # option VALUES are user data; they deliberately overlap with, but differ from, the option indices
            return DesignVariableNode(name, options=[i+1 for i in range(nd['k'])])
        return DesignVariableNode(name, bounds=(nd['lo']/UNIT, nd['hi']/UNIT))
    if t == 'met':
        return MetricNode(name, direction=(nd['mdir'] or None), ref=(nd['ref']/UNIT if nd['hasref'] else None),
                          type_=MT[nd['mtype']])
    raise ValueError(t)


def held_back_edges(g):
    """Derivation edges leaving an option node that can be added AFTER a first initialisation without any node
    becoming unreachable in the meantime (greedy; used for the build-initialise-extend-initialise history)."""
    opts = {o for c in g['ch'] for o in c['opts']}
    conn_like = {i+1 for i, nd in enumerate(g['nodes']) if nd['t'] != 'plain'}

    def potential(der):
        S = set(g['start'])
        while True:
            T = set(S)
            for s, t in der:
                if s in S:
                    T.add(t)
            for c in g['ch']:
                if c['origin'] in S:
                    T.update(c['opts'])
            if T == S:
                return S
            S = T
    full = potential(g['der'])
    kept, held = list(g['der']), []
    for e in list(g['der']):
        if e[0] in opts and e[1] not in conn_like and e[0] not in conn_like:
            trial = [x for x in kept if x != e]
            if potential(trial) == full:
                kept = trial
                held.append(e)
    return kept, held


def build_raw(g, cls=BasicDSG, der=None):
    """Everything up to (not including) set_start_nodes."""
    g = normalise(g)
    b = Built(g)
    d = cls()
    for i in range(1, g['n']+1):
        nobj = make_node(i, g['nodes'][i-1])
        b.node[i] = nobj
        b.inv[nobj] = i
        d.add_node(nobj)
    d.add_edges([(b.node[s], b.node[t]) for s, t in (g['der'] if der is None else der)])
    for k, c in enumerate(g['ch'], 1):
        cn = d.add_selection_choice('C%02d' % k, b.node[c['origin']], [b.node[o] for o in c['opts']])
        b.ch[k] = cn
        b.chinv[cn] = k

    def conn_arg(i):
        nd = g['nodes'][i-1]
        if nd['t'] == 'grp':
            return (b.node[i], [b.node[m] for m in nd['members']])
        return b.node[i]

    for k, c in enumerate(g['cc'], 1):
        cn = d.add_connection_choice('K%02d' % k, [conn_arg(i) for i in c['src']], [conn_arg(i) for i in c['tgt']],
                                     exclude=[(b.node[s], b.node[t]) for s, t in c['excl']] or None)
        b.cc[k] = cn
        b.ccinv[cn] = k
    for a, bb in g['inc']:
        d.add_incompatibility_constraint([b.node[a], b.node[bb]])
    b.dsg_raw = d
    return b


def apply_constraints(b, d):
    for c in b.g['cons']:
        members = [b.ch[m] for m in c['m']] + [b.node[i] for i in c['dv']]
        present = [m for m in members if m in d.graph.nodes]
        if len(present) != len(members):
            # a member was already resolved/removed by initialisation: the constraint cannot be declared on it any
            # more through the API, so this description is outside the input domain (generators avoid it)
            raise SkipInput('constraint member resolved at initialisation')
        d = d.constrain_choices(CT[c['type']], members)
    return d


def build(g, cls=BasicDSG, staged=False):
    """staged: the graph is initialised once without some derivation edges, extended by them, and initialised again
    (a design space that grows after it was first used)."""
    if staged:
        kept, held = held_back_edges(normalise(g))
        if g.get('inc'):
            # the first initialisation removes nodes that conflict with confirmed ones together with their constraints;
            # a user who extends the graph afterwards has to declare them again - not a history this check judges
            raise SkipInput('staged build is only exercised without incompatibility constraints')
        if not held:
            raise SkipInput('no derivation edge can be held back')
        b = build_raw(g, cls, der=kept)
        d = b.dsg_raw.set_start_nodes({b.node[s] for s in g['start']})
        # what the first initialisation resolved on its own (the second one only reports what was still open)
        b.auto_first = [[b.chinv[c], b.inv[o] if o is not None else 0] for c, o in d.get_taken_single_selection_choices() if c in b.chinv]
        for s, t in held:
            d.add_edge(b.node[s], b.node[t])
        d = d.set_start_nodes({b.node[s] for s in g['start']})
        d = apply_constraints(b, d)
        b.dsg = d
        return b
    b = build_raw(g, cls)
    d = b.dsg_raw.set_start_nodes({b.node[s] for s in g['start']})
    d = apply_constraints(b, d)
    b.dsg = d
    return b
