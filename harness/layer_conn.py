"""Connection-set layer (C09): settings corpus -> drive AggregateAssignmentMatrixGenerator -> Mon_ConnSem."""
import collections
import json
from harness import gen_conn, tlc
from harness.runner import first_per_clause, pmap

_FAMILY = None


def family():
    global _FAMILY
    if _FAMILY is None:
        _FAMILY = list(gen_conn.exhaustive_small(2, 2))
    return _FAMILY


def corpus(ctx):
    rng = ctx.rng('connsem')
    fam = family()
    small = [s for s in fam if len(s['src'])*len(s['tgt']) == 1]      # all 1x1 settings: always complete
    small = small + gen_conn.high_degree_family()
    if ctx.quick:
        return small + rng.sample(fam, 500) + [gen_conn.random_sdesc(rng) for _ in range(600)]
    return small + rng.sample(fam, 20000) + [gen_conn.random_sdesc(rng) for _ in range(8000)]


def drive_one(item):
    from harness import drive_conn
    tid, sd, seed = item
    try:
        return drive_conn.drive_matrix(sd, tid=tid, seed=seed)
    except Exception:
        import traceback
        return {'tid': tid, 's': sd, 'crash': traceback.format_exc(limit=8)}


def validate(traces, shards=16):
    crashed = [t for t in traces if 'crash' in t]
    if crashed:
        raise tlc.MachineryError('driver crashed outside a recorded call:\n' + crashed[0]['crash'])
    traces = [t for t in traces if 'skip' not in t]
    mon = tlc.run_monitor('Mon_ConnSem', traces, cfg='Mon_ConnSem.cfg', shards=shards)
    return traces, mon


def run(ctx, sds=None):
    sds = corpus(ctx) if sds is None else sds
    traces = pmap(drive_one, [(i, s, ctx.seed) for i, s in enumerate(sds)], seed=ctx.seed)
    traces, mon = validate(traces)
    out = {'n_traces': len(traces), 'n_settings': len(sds), 'states': mon['states'], 'transitions': mon['transitions'],
           'fails': [], 'patterns': 0, 'matrices': 0, 'validated': 0, 'nontrivial': 0, 'samples': [],
           'shapes': collections.Counter()}
    seen = set()
    for t in traces:
        v = mon['verdicts'][t['tid']]
        counts = v[3]
        npat = sum(1 for e in t['ev'] if e['e'] == 'Pat')
        out['patterns'] += npat
        out['matrices'] += sum(counts)
        out['validated'] += sum(len(e['val']) for e in t['ev'] if e['e'] == 'Pat')
        out['shapes']['%dx%d' % (len(t['s']['src']), len(t['s']['tgt']))] += 1
        key = json.dumps(t['s'], sort_keys=True)
        if sum(counts) >= 2 and key not in seen:
            out['nontrivial'] += 1
        seen.add(key)
        if v[2]:
            out['fails'].append({'tid': t['tid'], 'fails': first_per_clause(v[2]), 's': t['s']})
    for t in traces[:1] + traces[-1:]:
        out['samples'].append({'settings': t['s'], 'patterns': [{'cap': e['cap'], 'n_enumerated': len(e['agg']),
                                                                 'first': e['agg'][:2]} for e in t['ev'] if e['e'] == 'Pat'][:3]})
    out['shapes'] = dict(out['shapes'])
    return out


def replay(sd):
    from harness import drive_conn
    t = drive_conn.drive_matrix(sd, tid=0)
    if 'skip' in t:
        return []
    _, mon = validate([t], shards=1)
    return mon['verdicts'][0][2]
