"""Driver for C20: supplementary design space graphs.

sup description (sdesc):
  g    : a gdesc for the supplementary graph itself (plain nodes + selection choices only)
  maps : one entry per supplementary choice (1-based order = sg choice ids), each
         {kind: 'opt', src: <source choice id>, pairs: [[src option node, sup option node], ...], none: sup option or 0}
         {kind: 'ex',  pairs: [[src node, sup option node], ...] (priority order), none: sup option}
  neg  : '' | 'incomplete' | 'duplicate' | 'unmapped'   (a deliberately malformed variant)
"""
import random

from harness.build import build, SkipInput
from harness.gd import empty, well_formed
from harness import gen_graph


def gen_sup(rng, g, present_nodes=None, present_choices=None):
    """A supplementary graph with 1-3 choices (possibly nested) mapped from the choices and nodes that exist in the
    INITIALISED source graph (a mapping can only be declared on those through the API)."""
    present_nodes = sorted(present_nodes) if present_nodes is not None else list(range(1, g['n']+1))
    present_choices = sorted(present_choices) if present_choices is not None else list(range(1, len(g['ch'])+1))
    nch = rng.randint(1, 3)
    sg = empty(1)
    n = [1]
    origins = [1]
    chs = []
    for j in range(nch):
        origin = rng.choice(origins)
        k = rng.randint(2, 3)
        opts = []
        for _ in range(k):
            n[0] += 1
            sg['nodes'].append(dict(sg['nodes'][0]))
            opts.append(n[0])
        chs.append({'origin': origin, 'opts': opts})
        if rng.random() < 0.6:
            origins.append(rng.choice(opts))      # allow a nested supplementary choice
        if rng.random() < 0.4:
            n[0] += 1
            sg['nodes'].append(dict(sg['nodes'][0]))
            sg['der'].append([rng.choice(opts), n[0]])
            origins.append(n[0])
    sg['n'] = n[0]
    sg['ch'] = chs
    sg['der'].sort()
    maps = []
    for j, c in enumerate(chs):
        if present_choices and rng.random() < 0.6:
            src = rng.choice(present_choices)
            pairs = [[o, rng.choice(c['opts'])] for o in g['ch'][src-1]['opts'] if o in present_nodes]
            maps.append({'kind': 'opt', 'src': src, 'pairs': pairs, 'none': rng.choice(c['opts'])})
        else:
            cand = list(present_nodes)
            rng.shuffle(cand)
            pairs = [[s, rng.choice(c['opts'])] for s in cand[:rng.randint(1, 3)]]
            maps.append({'kind': 'ex', 'src': 0, 'pairs': pairs, 'none': rng.choice(c['opts'])})
    return {'g': sg, 'maps': maps, 'neg': ''}


def build_sup(sd, sb):
    """sb = Built of the source. Returns (SupDSG initialised or None, sup id maps, error stage, error name)."""
    from adsg_core.graph.sup import SupDSG, SupNode, SupSelChoiceOptionMapping, SupExistenceMapping
    sg = sd['g']
    nodes = {i: SupNode('S%02d' % i) for i in range(1, sg['n']+1)}
    inv = {v: k for k, v in nodes.items()}
    d = SupDSG()
    for i in nodes.values():
        d.add_node(i)
    d.add_edges([(nodes[s], nodes[t]) for s, t in sg['der']])
    chs = {}
    for k, c in enumerate(sg['ch'], 1):
        chs[k] = d.add_selection_choice('SC%02d' % k, nodes[c['origin']], [nodes[o] for o in c['opts']])
    maps = list(enumerate(sd['maps'], 1))
    if sd['neg'] == 'unmapped':
        maps = maps[:-1]
    if sd['neg'] == 'duplicate':
        maps = maps + [maps[0]]
    for k, m in maps:
        pairs = m['pairs']
        if sd['neg'] == 'incomplete' and k == 1 and m['kind'] == 'opt':
            pairs = pairs[:-1]
        if m['kind'] == 'opt':
            mp = {sb.node[s]: nodes[t] for s, t in pairs}
            if m['none']:
                mp[None] = nodes[m['none']]
            mapping = SupSelChoiceOptionMapping(sb.ch[m['src']], mp)
        else:
            mp = {sb.node[s]: nodes[t] for s, t in pairs}
            if sd['neg'] == 'incomplete' and k == 1:
                pass      # existence mapping without the None case
            else:
                mp[None] = nodes[m['none']]
            mapping = SupExistenceMapping(mp)
        try:
            d.add_mapping(chs[k], sb.dsg, mapping)
        except Exception as e:
            return None, nodes, inv, chs, 'add_mapping', type(e).__name__
    try:
        d = d.set_start_nodes({nodes[1]})
    except Exception as e:
        return None, nodes, inv, chs, 'initialize', type(e).__name__
    return d, nodes, inv, chs, '', ''


def source_finals(b, limit=60):
    """All final source instances reachable by taking the first active choice each time (every option)."""
    out = []

    def rec(d, sel):
        if len(out) >= limit:
            return
        nxt = [c for c in d.get_ordered_next_choice_nodes() if c in b.chinv and c in d.graph.nodes] if d.feasible else []
        if not nxt:
            out.append((d, dict(sel)))
            return
        c = nxt[0]
        for o in d.get_option_nodes(c):
            d2 = d.get_for_apply_selection_choice(c, o)
            s2 = dict(sel)
            s2[b.chinv[c]] = b.inv[o]
            for a, k in d2.get_taken_single_selection_choices():
                if a in b.chinv and k is not None:
                    s2[b.chinv[a]] = b.inv[k]
            rec(d2, s2)

    s0 = {}
    for a, k in b.dsg.get_taken_single_selection_choices():
        if a in b.chinv and k is not None:
            s0[b.chinv[a]] = b.inv[k]
    rec(b.dsg, s0)
    return out


def drive(item_g, seed, neg='', tid=0):
    try:
        sb = build(item_g)
    except SkipInput as e:
        return {'tid': tid, 'skip': str(e)}
    if not sb.dsg.feasible:
        return {'tid': tid, 'skip': 'source infeasible'}
    rng = random.Random(seed)
    sd = gen_sup(rng, item_g, present_nodes={sb.inv[n] for n in sb.dsg.graph.nodes if n in sb.inv},
                 present_choices={sb.chinv[n] for n in sb.dsg.graph.nodes if n in sb.chinv})
    sd['neg'] = neg
    if neg == 'incomplete' and sd['maps'][0]['kind'] == 'opt' and len(sd['maps'][0]['pairs']) < 1:
        sd['neg'] = ''
    if neg == 'unmapped' and len(sd['maps']) < 1:
        sd['neg'] = ''
    ev = []
    d, nodes, inv, chs, stage, err = build_sup(sd, sb)
    ev.append({'e': 'Build', 'stage': stage, 'err': err, 'neg': sd['neg']})
    if d is not None:
        # a non-final source must be rejected
        if not sb.dsg.final:
            e = {'e': 'ResolveNonFinal', 'err': ''}
            try:
                d.resolve(sb.dsg)
            except Exception as ex:
                e['err'] = type(ex).__name__
            ev.append(e)
        for inst, sel in source_finals(sb):
            if not (inst.final and inst.feasible):
                continue
            e = {'e': 'Resolve', 'err': '', 'src_nodes': sorted(sb.inv[n] for n in inst.graph.nodes if n in sb.inv),
                 'src_sel': sorted([c, o] for c, o in sel.items()), 'final': False, 'nodes': [], 'der': [], 'left': []}
            try:
                r = d.resolve(inst)
                e['final'] = bool(r.final)
                e['nodes'] = sorted(inv[n] for n in r.graph.nodes if n in inv)
                e['der'] = sorted([inv[s], inv[t]] for s, t in r.graph.edges() if s in inv and t in inv)
                e['left'] = sorted(k for k, c in chs.items() if c in r.graph.nodes)
            except Exception as ex:
                e['err'] = type(ex).__name__
            ev.append(e)
    return {'tid': tid, 'g': item_g, 's': sd, 'ev': ev}
