"""gdesc: the one input model shared by the real code (via build()) and the TLA+ specification (via JSON).

A gdesc is a plain dict (JSON document):
  n      : number of nodes; node ids are 1..n
  nodes  : list of n uniform node records (index i-1 <-> node id i), see node()
  start  : list of start node ids
  der    : list of [s, t] derivation edges
  ch     : list of selection choices {origin, opts[]}; choice ids are 1..len(ch)
  inc    : list of [a, b] incompatibility pairs
  cons   : list of choice constraints {type: linked|perm|unord|unordnr, m: [choice ids] , dv: [dv node ids]}
  cc     : list of connection choices {src: [ids], tgt: [ids], excl: [[s,t],...]}
  feat   : list of feature tags (for coverage reporting only)

Everything is integers / strings / booleans so that TLC's JsonDeserialize reads the same file.
Continuous quantities are dyadic rationals transported as integers in 1/1024 units.
"""
import math

UNIT = 1024
CTYPES = ('linked', 'perm', 'unord', 'unordnr')


def node(t='plain', dl=None, dmin=1, dmax=1, rep=False, members=None, disc=True, k=0, lo=0, hi=0,
         mdir=0, hasref=False, ref=0, mtype='auto'):
    """Uniform node record.
    t: plain | conn | grp | dv | met
    conn: dl (degree list; empty = use dmin..dmax; dmax=-1 means open-ended), rep (parallel connections allowed)
    grp : members (connector node ids)
    dv  : disc, k (number of options) or lo/hi (1/1024 units)
    met : mdir (-1, 0=None, 1), hasref/ref (1/1024 units), mtype: auto|none|obj|con
    """
    return {'t': t, 'dl': list(dl or []), 'dmin': dmin, 'dmax': dmax, 'rep': bool(rep),
            'members': list(members or []), 'disc': bool(disc), 'k': k, 'lo': lo, 'hi': hi,
            'mdir': mdir, 'hasref': bool(hasref), 'ref': ref, 'mtype': mtype}


def empty(n):
    return {'n': n, 'nodes': [node() for _ in range(n)], 'start': [1], 'der': [], 'ch': [], 'inc': [],
            'cons': [], 'cc': [], 'feat': []}


def normalise(g):
    g.setdefault('nodes', [node() for _ in range(g['n'])])
    for key in ('der', 'ch', 'inc', 'cons', 'cc', 'feat'):
        g.setdefault(key, [])
    for c in g['cons']:
        c.setdefault('m', [])
        c.setdefault('dv', [])
    for c in g['cc']:
        c.setdefault('excl', [])
    return g


def well_formed(g):
    """The explicit, small well-formedness rules of DESIGN.md 2.1. Returns None or a reason string."""
    n = g['n']
    ids = set(range(1, n+1))
    if not g['start'] or not set(g['start']) <= ids:
        return 'start'
    for s, t in g['der']:
        if s == t or s not in ids or t not in ids:
            return 'self-derivation'
    for c in g['ch']:
        if c['origin'] in c['opts']:
            return 'option is its own origin'
        if len(set(c['opts'])) != len(c['opts']) or not c['opts']:
            return 'duplicate/empty options'
    # degenerate: two choices on the SAME originating node that share an option -- two different assignments then
    # denote one and the same graph, so "one vector per architecture" is not even well defined for the input
    for i, c in enumerate(g['ch']):
        for c2 in g['ch'][i+1:]:
            if c['origin'] == c2['origin'] and set(c['opts']) & set(c2['opts']):
                return 'sibling choices sharing an option'
    der = {(s, t) for s, t in g['der']}
    for a, b in g['inc']:
        if a == b:
            return 'inc self'
        # degenerate: a node that directly requires what it excludes (kept out of every generated family; see
        # DESIGN.md 2.1) -- the indirect case (a derives b through other nodes) stays in
        if (a, b) in der or (b, a) in der:
            return 'incompatible pair joined by a direct derivation edge'
    return None


def closure_potential(g):
    """Nodes potentially reachable (any option may be taken). Used only by generators for well-formedness
    (every node potentially reachable), never as an oracle."""
    S = set(g['start'])
    while True:
        T = set(S)
        for s, t in g['der']:
            if s in S:
                T.add(t)
        for c in g['ch']:
            if c['origin'] in S:
                T.update(c['opts'])
        for i, nd in enumerate(g['nodes']):
            if nd['t'] == 'grp' and any(m in S for m in nd['members']):
                T.add(i+1)
        if T == S:
            return S
        S = T


def canon_key(g):
    """A cheap isomorphism-invariant-ish key (exact canonical form for tiny graphs is done in gen_graph)."""
    import json
    return json.dumps({k: g[k] for k in ('n', 'nodes', 'start', 'der', 'ch', 'inc', 'cons', 'cc')}, sort_keys=True)
