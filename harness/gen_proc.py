"""Descriptions for the processor layer: selection-level graphs plus design-variable nodes (and, later, connection
choices) with a bounded declared design space."""
from harness import gen_graph
from harness.gd import node, UNIT


def add_dv_nodes(g, rng, nmax=2):
    """Attach up to nmax design-variable nodes (discrete with 2-3 options, or continuous with dyadic bounds) under
    random existing nodes, so that they exist permanently or conditionally like any other node."""
    k = rng.randint(0, nmax)
    for _ in range(k):
        parent = rng.randint(1, g['n'])
        g['n'] += 1
        i = g['n']
        if rng.random() < 0.6:
            g['nodes'].append(node('dv', disc=True, k=rng.choice([2, 3])))
        else:
            lo = rng.choice([-2, 0, 1])*UNIT
            hi = lo + rng.choice([1, 2, 4])*UNIT
            g['nodes'].append(node('dv', disc=False, lo=lo, hi=hi))
        g['der'].append([parent, i])
        g['der'].sort()
        if 'dv' not in g['feat']:
            g['feat'].append('dv')
    return g


def random_proc_graph(rng, with_dv=True, **kw):
    g = gen_graph.random_graph(rng, **kw)
    if with_dv:
        add_dv_nodes(g, rng)
    return g
