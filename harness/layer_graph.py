"""Graph layer: corpus -> drive (real code) -> Mon_Graph (TLC) -> per-trace verdicts.  Shared by C02, C06 (and the
graph level of C13)."""
import collections
import json
from harness import gen_graph, tlc
from harness.runner import pmap


def staged_corpus(rng, n):
    """Descriptions without incompatibilities in which some derivation edge leaving an option can be added after a first
    initialisation (see build.held_back_edges), built through that history."""
    from harness.build import held_back_edges
    from harness.gd import normalise
    out, tries = [], 0
    while len(out) < n and tries < 40*n:
        tries += 1
        g = gen_graph.random_graph(rng, nmin=4, nmax=9, max_ch=3, n_inc=(0, 0), max_space=60)
        if held_back_edges(normalise(g))[1]:
            out.append(gen_graph.staged(g))
    return out


def corpus(ctx):
    gs = [gen_graph.theory_example(), gen_graph.cached_walk_rejoin_example(), gen_graph.cycle_cross_edge_example()]
    gs += [gen_graph.with_floating_roots(g, v) for g in gs[:2] for v in (0, 1)] + gen_graph.incompatibility_chain_family()
    if ctx.quick:
        gs += list(gen_graph.exhaustive_family(4, max_inc=1))
        rng = ctx.rng('graph')
        gs += [gen_graph.random_graph(rng) for _ in range(500)]
        # a design space that grows after its first initialisation (initialise - add derivation edges - initialise)
        gs += staged_corpus(rng, 150)
    else:
        gs += list(gen_graph.exhaustive_family(4, max_inc=2))
        gs += list(gen_graph.exhaustive_family(5, max_inc=2))      # 328 k descriptions: every one up to 5 nodes
        rng = ctx.rng('graph')
        gs += [gen_graph.random_graph(rng, nmin=6, nmax=13, max_space=400) for _ in range(6000)]
        gs += staged_corpus(rng, 1500)
    return gs


def corpus_cc(ctx):
    from harness import gen_cc
    rng = ctx.rng('graphcc')
    n = 250 if ctx.quick else 3000
    return [gen_cc.theory_conn_example()] + gen_cc.exclusion_with_conditional_target_examples() + [gen_cc.random_cc_graph(rng) for _ in range(n)]


def drive_one(item):
    from harness import drive_graph
    tid, g = item
    try:
        return drive_graph.explore(g, tid=tid, staged='staged_build' in g.get('feat', []))
    except Exception as e:   # a crash outside a recorded call: machinery failure, reported as such
        import traceback
        return {'tid': tid, 'g': g, 'crash': traceback.format_exc(limit=8)}


def summarise(traces, mon):
    out = {'n_traces': len(traces), 'states': mon['states'], 'transitions': mon['transitions'],
           'tlc_wall': mon['wall'], 'fails': [], 'drift': collections.Counter(), 'features': collections.Counter(),
           'n_events': 0, 'nontrivial': 0, 'adm_total': 0, 'truncated': 0, 'samples': []}
    seen = set()
    for t in traces:
        v = mon['verdicts'][t['tid']]
        fails, drift, nadm, nfin, nobj = v[2], v[3], v[4], v[5], v[6]
        out['n_events'] += len(t['ev'])
        out['adm_total'] += nadm
        out['truncated'] += 1 if t.get('trunc') else 0
        key = json.dumps([t['g'][k] for k in ('n', 'start', 'der', 'ch', 'inc', 'cons', 'cc')] + [[n['t'], n['dl'], n['dmin'], n['dmax'], n['rep']] for n in t['g']['nodes'] if n['t'] != 'plain'])
        if len(t['ev']) >= 2 and key not in seen:
            out['nontrivial'] += 1
        seen.add(key)
        for f in t['g'].get('feat', []):
            out['features'][f] += 1
        for d in drift:
            out['drift'][d[0]] += 1
        if fails:
            out['fails'].append({'tid': t['tid'], 'fails': fails, 'trace': t})
    for t in traces[:1] + traces[len(traces)//2:len(traces)//2+1]:
        out['samples'].append({'g': {k: t['g'][k] for k in ('n', 'start', 'der', 'ch', 'inc', 'cons', 'cc')},
                               'events': [{k: e[k] for k in ('e', 'p', 'c', 'k', 'q', 'auto')} | {
                                   'obs_nodes': e['obs']['nodes'], 'feasible': e['obs']['feasible'],
                                   'final': e['obs']['final']} for e in t['ev'][:6]],
                               'verdict': mon['verdicts'][t['tid']][2]})
    out['drift'] = dict(out['drift'])
    out['features'] = dict(out['features'])
    return out


def validate(traces, shards=16):
    crashed = [t for t in traces if 'crash' in t]
    if crashed:
        raise tlc.MachineryError('driver crashed outside a recorded call:\n' + crashed[0]['crash'])
    traces = [t for t in traces if 'skip' not in t]
    mon = tlc.run_monitor('Mon_Graph', traces, cfg='Mon_Graph.cfg', shards=shards)
    return traces, mon


def run_cc(ctx):
    return run(ctx, gs=corpus_cc(ctx))


def run(ctx, gs=None):
    gs = corpus(ctx) if gs is None else gs
    traces = pmap(drive_one, list(enumerate(gs)), seed=ctx.seed)
    traces, mon = validate(traces)
    res = summarise(traces, mon)
    res['n_graphs'] = len(gs)
    return res


def replay(g):
    """Re-drive one description on the current tree and re-validate; returns the list of failing clauses."""
    from harness import drive_graph
    t = drive_graph.explore(g, tid=0)
    if 'skip' in t:
        return []
    _, mon = validate([t], shards=1)
    return mon['verdicts'][0][2]
