"""Generators for connector settings (sdesc), used by C09 / C10 / C12."""
import itertools

ALPHABET = [
    {'dl': [0], 'dmin': 0, 'dmax': 0},
    {'dl': [1], 'dmin': 0, 'dmax': 0},
    {'dl': [], 'dmin': 0, 'dmax': 1},
    {'dl': [], 'dmin': 1, 'dmax': 2},
    {'dl': [], 'dmin': 0, 'dmax': 2},
    {'dl': [0, 2], 'dmin': 0, 'dmax': 0},
    {'dl': [], 'dmin': 1, 'dmax': -1},
    {'dl': [], 'dmin': 0, 'dmax': -1},
]
EXTRA = [
    {'dl': [2], 'dmin': 0, 'dmax': 0},
    {'dl': [1, 3], 'dmin': 0, 'dmax': 0},
    {'dl': [], 'dmin': 2, 'dmax': -1},
    {'dl': [], 'dmin': 1, 'dmax': 3},
    {'dl': [1, 2, 3], 'dmin': 0, 'dmax': 0},
]


def conn(spec, rep):
    d = dict(spec)
    d['dl'] = list(d['dl'])
    d['rep'] = bool(rep)
    return d


def all_patterns(ns, nt, cond_s, cond_t):
    pats = []
    for sx in itertools.product(*[[True, False] if c else [True] for c in cond_s]):
        for tx in itertools.product(*[[True, False] if c else [True] for c in cond_t]):
            pats.append({'sx': list(sx), 'tx': list(tx), 'so': [], 'to': []})
    return pats


def sdesc(src, tgt, excl=(), pats=(), mcp=0):
    return {'src': list(src), 'tgt': list(tgt), 'excl': [list(e) for e in excl], 'pats': list(pats), 'mcp': mcp}


def exhaustive_small(max_s=2, max_t=2):
    """Every combination of alphabet types x rep flags for up to max_s x max_t nodes, all existence patterns (every
    node conditional), with no and with one excluded pair."""
    nodes = [conn(a, r) for a in ALPHABET for r in (False, True)]
    for ns in range(1, max_s+1):
        for nt in range(1, max_t+1):
            for src in itertools.product(nodes, repeat=ns):
                for tgt in itertools.product(nodes, repeat=nt):
                    pats = all_patterns(ns, nt, [True]*ns, [True]*nt)
                    yield sdesc(src, tgt, pats=pats)
                    if ns*nt > 1:
                        yield sdesc(src, tgt, excl=[(0, 0)], pats=pats)


def random_sdesc(rng, max_s=3, max_t=3, p_excl=0.4, p_override=0.3):
    nodes = [conn(a, r) for a in ALPHABET + EXTRA for r in (False, True)]
    ns, nt = rng.randint(1, max_s), rng.randint(1, max_t)
    src = [dict(rng.choice(nodes)) for _ in range(ns)]
    tgt = [dict(rng.choice(nodes)) for _ in range(nt)]
    excl = []
    if rng.random() < p_excl:
        for _ in range(rng.randint(1, 2)):
            e = [rng.randrange(ns), rng.randrange(nt)]
            if e not in excl:
                excl.append(e)
    mode = rng.random()
    if mode < 0.3:
        pats = []
    else:
        cs = [rng.random() < 0.5 for _ in range(ns)]
        ct = [rng.random() < 0.5 for _ in range(nt)]
        pats = all_patterns(ns, nt, cs, ct)
        if len(pats) > 6:
            pats = rng.sample(pats, 6)
        # grouping-style degree overrides on present nodes
        for p in pats:
            if rng.random() < p_override:
                i = rng.randrange(ns)
                if p['sx'][i]:
                    p['so'] = [[i, sorted(rng.sample([0, 1, 2, 3], rng.randint(1, 3)))]]
            if rng.random() < p_override:
                j = rng.randrange(nt)
                if p['tx'][j]:
                    p['to'] = [[j, sorted(rng.sample([0, 1, 2, 3], rng.randint(1, 3)))]]
        # patterns must be pairwise distinct for the library
        seen, uniq = set(), []
        for p in pats:
            k = repr(p)
            if k not in seen:
                seen.add(k)
                uniq.append(p)
        pats = uniq
    return sdesc(src, tgt, excl=excl, pats=pats, mcp=rng.choice([0, 0, 0, 1, 2, 3]))


HIGH = [  # degrees above 2 (the default limit on parallel connections then follows the largest finite degree)
    {'dl': [], 'dmin': 0, 'dmax': 3}, {'dl': [], 'dmin': 1, 'dmax': 4}, {'dl': [0, 1, 2, 3], 'dmin': 0, 'dmax': 0},
    {'dl': [3], 'dmin': 0, 'dmax': 0}, {'dl': [1, 3], 'dmin': 0, 'dmax': 0}, {'dl': [], 'dmin': 2, 'dmax': 3},
]


def high_degree_family():
    """Every 1x1 and a slice of the 2x1 / 1x2 settings over the high-degree alphabet with repetition allowed (and one
    no-repetition partner), without explicit parallel limit."""
    out = []
    nodes = [conn(a, True) for a in HIGH] + [conn(HIGH[0], False)]
    for a in nodes:
        for b in nodes:
            out.append(sdesc([a], [b]))
    for a in nodes[:4]:
        for b in nodes[:4]:
            out.append(sdesc([a, conn(ALPHABET[2], True)], [b]))
            out.append(sdesc([a], [b, conn(ALPHABET[6], True)], pats=all_patterns(1, 2, [False], [False, True])))
    return out


def pattern_family():
    """Settings that the pattern encoders are written for, with the parameters they distinguish (minimum number of
    connections per source 0..3, repetition allowed or not, surjective or not; choose-one; permutation-like)."""
    out = []
    for rep in (False, True):
        for smin in (0, 1, 2, 3):
            for tmin in (0, 1):
                for ns, nt in ((1, 3), (2, 2), (2, 3)):
                    out.append(sdesc([{'dl': [], 'dmin': smin, 'dmax': -1, 'rep': rep}]*ns,
                                     [{'dl': [], 'dmin': tmin, 'dmax': -1, 'rep': rep}]*nt))
    one = {'dl': [1], 'dmin': 0, 'dmax': 0, 'rep': False}
    opt = {'dl': [], 'dmin': 0, 'dmax': 1, 'rep': False}
    anyn = {'dl': [], 'dmin': 0, 'dmax': -1, 'rep': False}
    out += [sdesc([one], [opt]*3), sdesc([one]*2, [opt]*3), sdesc([one]*3, [one]*3), sdesc([opt]*3, [opt]*3),
            sdesc([anyn], [one]*3), sdesc([anyn]*2, [one]*3), sdesc([anyn]*2, [opt]*3),
            sdesc([{'dl': [2], 'dmin': 0, 'dmax': 0, 'rep': False}], [opt]*4),
            sdesc([{'dl': [2], 'dmin': 0, 'dmax': 0, 'rep': True}], [{'dl': [], 'dmin': 0, 'dmax': -1, 'rep': True}]*3)]
    # partitioning shapes: k..* sources (k >= 1), targets all '1' or all '0..1'; non-palindromic option counts
    plus = {'dl': [], 'dmin': 1, 'dmax': -1, 'rep': False}
    two = {'dl': [], 'dmin': 2, 'dmax': -1, 'rep': False}
    out += [sdesc([plus]*3, [opt]*4), sdesc([plus]*3, [one]*4), sdesc([plus]*4, [one]*5), sdesc([two]*2, [one]*5),
            sdesc([{'dl': [0, 1, 2, 3], 'dmin': 0, 'dmax': 0, 'rep': True}], [{'dl': [0, 1], 'dmin': 0, 'dmax': 0, 'rep': True}, {'dl': [2], 'dmin': 0, 'dmax': 0, 'rep': True}]),
            sdesc([{'dl': [0, 1], 'dmin': 0, 'dmax': 0, 'rep': True}, {'dl': [2], 'dmin': 0, 'dmax': 0, 'rep': True}], [{'dl': [0, 1, 2, 3], 'dmin': 0, 'dmax': 0, 'rep': True}])]
    return [json_copy(s) for s in out]


def json_copy(s):
    import json
    return json.loads(json.dumps(s))
