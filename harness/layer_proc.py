"""Processor layer: corpus -> drive GraphProcessor (both encoders) -> Mon_Proc (TLC) -> per-trace verdicts.
Shared by C01, C03, C04, C07, C14, C16."""
import collections
import json
from harness import gen_graph, gen_proc, gen_cc, gen_cons, tlc
from harness.runner import first_per_clause, pmap

CAP_QUICK = 300
CAP_THOROUGH = 1500


def corpus(ctx):
    rng = ctx.rng('proc')
    gs = [gen_graph.theory_example()] + gen_cons.linked_dv_graphs()
    # choice constraints over permanent members next to unrelated choices (the other placements belong to C13's corpus)
    gs += [g for g in gen_cons.family(True) if any(f in ('place_permanent_and_independent', 'place_permanent_and_conditional') for f in g['feat'])]
    if ctx.quick:
        fam = list(gen_graph.exhaustive_family(4, max_inc=1))
        gs += [g for i, g in enumerate(fam) if i % 3 == ctx.seed % 3]
        gs += [gen_proc.random_proc_graph(rng, nmin=4, nmax=9, max_space=60) for _ in range(350)]
        gs += [gen_cc.theory_conn_example()] + gen_cc.exclusion_with_conditional_target_examples() + [gen_cc.intermediate_infeasibility_example()] + [gen_cc.random_cc_graph(rng) for _ in range(120)]
    else:
        gs += list(gen_graph.exhaustive_family(4, max_inc=1))
        fam5 = list(gen_graph.exhaustive_family(5, max_inc=1))
        gs += [g for i, g in enumerate(fam5) if i % 6 == ctx.seed % 6]
        gs += [gen_proc.random_proc_graph(rng, nmin=4, nmax=11, max_space=150) for _ in range(4000)]
        gs += [gen_cc.theory_conn_example()] + gen_cc.exclusion_with_conditional_target_examples() + [gen_cc.intermediate_infeasibility_example()] + [gen_cc.random_cc_graph(rng, nmin=3, nmax=9) for _ in range(1500)]
    return gs


def drive_one(item):
    from harness import drive_proc
    tid, g, cap, seed = item
    try:
        return drive_proc.drive(g, tid=tid, cap=cap, seed=seed)
    except Exception:
        import traceback
        return {'tid': tid, 'g': g, 'crash': traceback.format_exc(limit=8)}


def validate(traces, shards=16):
    crashed = [t for t in traces if 'crash' in t]
    if crashed:
        raise tlc.MachineryError('driver crashed outside a recorded call:\n' + crashed[0]['crash'])
    traces = [t for t in traces if 'skip' not in t]
    mon = tlc.run_monitor('Mon_Proc', traces, cfg='Mon_Proc.cfg', shards=shards)
    return traces, mon


def slim(t, around=None):
    """A trace with only the events needed to understand a failure (keeps replay files small)."""
    ev = t['ev']
    if around is not None and len(ev) > 40:
        keep = sorted({i for i, e in enumerate(ev) if e['e'] in ('New', 'Enum')} |
                      {i for a in around for i in range(max(0, a-3), min(len(ev), a+2))})
        ev = [dict(ev[i], idx=i+1) for i in keep]
    return {'tid': t['tid'], 'g': t['g'], 'ev': ev}


def summarise(traces, mon):
    out = {'n_traces': len(traces), 'states': mon['states'], 'transitions': mon['transitions'], 'tlc_wall': mon['wall'],
           'fails': [], 'features': collections.Counter(), 'n_events': 0, 'n_decodes': 0, 'nontrivial': 0,
           'adm_total': 0, 'samples': [], 'clause_counts': collections.Counter(), 'encoders': collections.Counter()}
    seen = set()
    for t in traces:
        v = mon['verdicts'][t['tid']]
        fails, nadm = v[2], v[4]
        out['n_events'] += len(t['ev'])
        ndec = sum(1 for e in t['ev'] if e['e'] in ('Dec', 'DecRow'))
        out['n_decodes'] += ndec
        out['adm_total'] += nadm
        for e in t['ev']:
            if e['e'] == 'New' and not e['err']:
                out['encoders'][e['enc']] += 1
        key = json.dumps([t['g'][k] for k in ('n', 'start', 'der', 'ch', 'inc', 'cons', 'cc')] +
                         [[n['t'], n['k'], n['lo'], n['hi'], n['dl'], n['dmin'], n['dmax'], n['rep']] for n in t['g']['nodes'] if n['t'] != 'plain'])
        if ndec >= 4 and key not in seen:
            out['nontrivial'] += 1
        seen.add(key)
        for f in t['g'].get('feat', []):
            out['features'][f] += 1
        if fails:
            for c in {f[0] for f in fails}:
                out['clause_counts'][c] += 1
            out['fails'].append({'tid': t['tid'], 'fails': first_per_clause(fails), 'g': t['g'],
                                 'trace': slim(t, around=[f[1]-1 for f in first_per_clause(fails)][:12])})
    for t in traces[:1] + traces[len(traces)//2:len(traces)//2+1]:
        out['samples'].append({'g': {k: t['g'][k] for k in ('n', 'start', 'der', 'ch', 'inc', 'cons', 'cc')},
                               'events': [{k: e.get(k) for k in ('e', 'enc', 'x', 'create', 'rx', 'ract', 'err') if k in e}
                                          for e in t['ev'][:8]]})
    for k in ('features', 'clause_counts', 'encoders'):
        out[k] = dict(out[k])
    return out


def run(ctx, gs=None):
    gs = corpus(ctx) if gs is None else gs
    cap = CAP_QUICK if ctx.quick else CAP_THOROUGH
    traces = pmap(drive_one, [(i, g, cap, ctx.seed) for i, g in enumerate(gs)], seed=ctx.seed)
    traces, mon = validate(traces)
    res = summarise(traces, mon)
    res['n_graphs'] = len(gs)
    return res


def replay(g, cap=CAP_THOROUGH):
    from harness import drive_proc
    from harness.gd import normalise
    t = drive_proc.drive(normalise(g), tid=0, cap=cap)
    if 'skip' in t:
        return []
    _, mon = validate([t], shards=1)
    return mon['verdicts'][0][2]
