"""./check selftest - demonstrates the binding (not a property check):
  1. a recorded trace of the real code is accepted; the same trace with ONE field corrupted is rejected with the
     expected clause (graph, processor, connection-enumeration and coding monitors);
  2. the machines' flaw configurations violate their invariants and the as-built configurations do not;
  3. every 'fixed' witness of known_findings.json passes on the current tree.
Exit 0 when everything behaves as stated, 1 otherwise (2 = machinery failure)."""
import copy
import json
import os
import shutil
import sys
import tempfile

from harness import runner, tlc


def _clauses(mon, tid):
    return sorted({c[0] for c in mon['verdicts'][tid][2]})


def corrupted_traces():
    from harness import gen_graph, drive_graph, drive_proc, gen_conn, drive_conn
    out = []
    # ---- graph layer: theory-page example, all orders
    g = gen_graph.theory_example()
    t = drive_graph.explore(g, tid=0)
    bad1 = copy.deepcopy(t); bad1['tid'] = 1
    fin = [e for e in bad1['ev'] if e['obs']['final'] and e['obs']['feasible'] and len(e['obs']['nodes']) > 2][0]
    fin['obs']['nodes'] = fin['obs']['nodes'][:-1]                       # drop one node from a final instance
    bad2 = copy.deepcopy(t); bad2['tid'] = 2
    bad2['ev'] = [e for e in bad2['ev'] if not (e['obs']['final'] and e['obs']['feasible'])][:max(1, len(bad2['ev'])//2)]   # lose architectures
    mon = tlc.run_monitor('Mon_Graph', [t, bad1, bad2], cfg='Mon_Graph.cfg', shards=1)
    out.append(('Mon_Graph accepts the recorded theory-page exploration', _clauses(mon, 0) == [], _clauses(mon, 0)))
    out.append(('Mon_Graph rejects a final instance with a node removed', any(c.startswith('C02.') for c in _clauses(mon, 1)), _clauses(mon, 1)))
    out.append(('Mon_Graph rejects an exploration that loses architectures', any('unreach' in c or 'missing' in c or 'not_reached' in c for c in _clauses(mon, 2)), _clauses(mon, 2)))
    # ---- processor layer
    p = drive_proc.drive(g, tid=0, encoders=('complete',))
    b1 = copy.deepcopy(p); b1['tid'] = 1
    dec = [e for e in b1['ev'] if e['e'] == 'Dec' and e['hasinst'] and any(e['ract'])][0]
    i = dec['ract'].index(True)
    dec['ract'][i] = False                                               # flip one activeness bit
    b2 = copy.deepcopy(p); b2['tid'] = 2
    en = [e for e in b2['ev'] if e['e'] == 'Enum'][0]
    en['rows'] = en['rows'][:-1]                                         # drop a row of the enumeration
    mon = tlc.run_monitor('Mon_Proc', [p, b1, b2], cfg='Mon_Proc.cfg', shards=1)
    out.append(('Mon_Proc accepts the recorded decode trace', _clauses(mon, 0) == [], _clauses(mon, 0)))
    out.append(('Mon_Proc rejects a flipped activeness bit', _clauses(mon, 1) != [], _clauses(mon, 1)))
    out.append(('Mon_Proc rejects a dropped enumeration row', any(c.startswith('C04.') for c in _clauses(mon, 2)), _clauses(mon, 2)))
    # ---- connection enumeration
    A, c = gen_conn.ALPHABET, gen_conn.conn
    sd = gen_conn.sdesc([c(A[3], False), c(A[2], False)], [c(A[4], True), c(A[2], False)])
    m = drive_conn.drive_matrix(sd, tid=0)
    m1 = copy.deepcopy(m); m1['tid'] = 1
    pat = [e for e in m1['ev'] if e['e'] == 'Pat' and len(e['agg']) > 1][0]
    pat['agg'] = pat['agg'][:-1]                                         # drop one enumerated matrix
    mon = tlc.run_monitor('Mon_ConnSem', [m, m1], cfg='Mon_ConnSem.cfg', shards=1)
    out.append(('Mon_ConnSem accepts the recorded enumeration', _clauses(mon, 0) == [], _clauses(mon, 0)))
    out.append(('Mon_ConnSem rejects a dropped matrix', any('missing' in x or 'count' in x for x in _clauses(mon, 1)), _clauses(mon, 1)))
    return out


def machines(wd):
    from harness import layer_select, layer_tl, drive_hist, layer_hist
    out = []
    res = layer_select.model_check(os.path.join(wd, 'sel'))        # raises MachineryError when not as expected
    out.append(('SelectorCache: as built holds, three flaws violate', True, {k: v['violated'] for k, v in res.items()}))
    os.makedirs(os.path.join(wd, 'tl'), exist_ok=True)
    res = layer_tl.model_check(os.path.join(wd, 'tl'), True)
    out.append(('TimeLimiter: every configuration behaves as expected', all(r['as_expected'] for r in res.values()),
                {k: (r['which'] or 'holds') for k, r in res.items()}))
    prob = drive_hist.problem_of(layer_hist.base_problem_graph())
    res = drive_hist.model_check(prob, os.path.join(wd, 'pi'))
    out.append(('ProcessorImpl: contract holds without flaws, each flaw violates it',
                (not res['ok']['violated']) and res['alias']['violated'] and res['share']['violated'], {k: v['violated'] for k, v in res.items()}))
    return out


def witnesses():
    from harness.checks import replay_payload
    from harness.gd import normalise
    out = []
    for f in runner.load_findings():
        if f['status'] != 'fixed' or f.get('witness', {}).get('kind') not in ('gdesc', 'payload'):
            continue
        payload = f['witness'].get('payload') or {'layer': f['layer'], 'g': normalise(f['witness']['g'])}
        fails = [c for c in replay_payload(payload) if c[0].startswith(f['property'] + '.')]
        if f.get('clauses'):
            fails = [c for c in fails if c[0] in f['clauses']]
        out.append(('fixed %s %s stays fixed' % (f['property'], f['commit']), not fails, sorted({c[0] for c in fails})))
    return out


def main():
    os.makedirs(runner.CACHE, exist_ok=True)
    wd = tempfile.mkdtemp(prefix='selftest-', dir=runner.CACHE)
    bad = 0
    try:
        for part in (corrupted_traces, lambda: machines(wd), witnesses):
            for name, ok, detail in part():
                print('%-4s %s   %s' % ('ok' if ok else 'FAIL', name, json.dumps(detail)[:200]))
                bad += 0 if ok else 1
    except tlc.MachineryError as e:
        print('MACHINERY FAILURE:', e)
        return 2
    finally:
        shutil.rmtree(wd, ignore_errors=True)
    print('selftest:', 'all as stated' if not bad else '%d item(s) not as stated' % bad)
    return 1 if bad else 0
