"""Narrow, named structural predicates used ONLY to attribute a freshly found violation to a committed known finding
(same property + same clause + trigger holds).  They never make a check pass that would otherwise fail for another
reason, and never produce a violation."""

REG = {}


def trigger(fn):
    REG[fn.__name__] = fn
    return fn


def holds(name, payload):
    if not name:
        return False
    fn = REG.get(name)
    return bool(fn and fn(payload))


def _g(payload):
    return payload.get('g') or {}


def _potential_from(g, roots):
    S = set(roots)
    while True:
        T = set(S)
        for s, t in g.get('der', []):
            if s in S:
                T.add(t)
        for c in g.get('ch', []):
            if c['origin'] in S:
                T.update(c['opts'])
        if T == S:
            return S
        S = T


@trigger
def SharedOptionWithIncompatibility(payload):
    """Some node is an option of two or more selection choices, and the description has an incompatibility pair."""
    g = _g(payload)
    cnt = {}
    for c in g.get('ch', []):
        for o in c['opts']:
            cnt[o] = cnt.get(o, 0)+1
    return bool(g.get('inc')) and any(v > 1 for v in cnt.values())


@trigger
def SharedOptionNode(payload):
    g = _g(payload)
    cnt = {}
    for c in g.get('ch', []):
        for o in c['opts']:
            cnt[o] = cnt.get(o, 0)+1
    return any(v > 1 for v in cnt.values())


@trigger
def PermanentChoiceOptionTouchedByIncompatibility(payload):
    """A selection choice on a permanent originating node has an option whose (potential) derivation closure contains
    an end of an incompatibility pair: in some scenario the choice is left with one option and is auto-resolved."""
    g = _g(payload)
    perm = set(g.get('start', []))
    while True:
        T = set(perm)
        for s, t in g.get('der', []):
            if s in perm:
                T.add(t)
        if T == perm:
            break
        perm = T
    ends = {x for p in g.get('inc', []) for x in p}
    for c in g.get('ch', []):
        if c['origin'] in perm and len(c['opts']) >= 2:
            for o in c['opts']:
                if _potential_from(g, [o]) & ends:
                    return True
    return False


def holds_args(name, payload, args):
    if name == 'EncoderImputer':
        enc = payload.get('enc') or {}
        idx = args.get('idx')
        return (enc.get('kind') == args.get('kind') and (idx == '*' or enc.get('idx') in idx)
                and args.get('imp') in ('*', enc.get('imp')))
    return holds(name, payload)


@trigger
def DanglingConditionalTargetWithoutSources(payload):
    """After initialisation no source connector of some connection choice is left in the graph while one of its
    target connectors still is (the choice node is gone, the target dangles)."""
    g = _g(payload)
    tr = payload.get('trace') or {}
    ev = tr.get('ev') or []
    if not ev or not g.get('cc'):
        return False
    nodes = set(ev[0]['obs'].get('nodes', []))
    for c in g['cc']:
        if not (set(c['src']) & nodes) and (set(c['tgt']) & nodes):
            return True
    return False


@trigger
def LazyEncoderSelected(payload):
    """Selection ended with a lazy encoder (the count of matrices or every eager candidate expired): lazy encoders
    never look at the set of valid matrices up front."""
    return any(str(n).startswith('Lazy') for n in (payload.get('selected') or []))


@trigger
def ChoiceConstraintForcesMember(payload):
    """Fast encoder, and the variable reported inactive at the failing event belongs to a member of a choice constraint
    (linked / permutation / ordering): once the other members are taken, the member can be left with a single option
    and is then resolved automatically.  (When the failing event is not known - a committed witness - the structural
    part alone decides.)"""
    g = _g(payload)
    members = {m for c in g.get('cons', []) if len(c.get('m') or []) >= 2 for m in c['m']}
    if not members:
        return False
    idx = payload.get('fail_idx')
    ev = (payload.get('trace') or {}).get('ev') or []
    if idx is None or not ev:
        return True
    enc, dvs, hit = None, [], None
    for pos, e in enumerate(ev):
        eidx = e.get('idx', pos+1)
        if e.get('e') == 'New' and eidx <= idx:
            enc, dvs = e.get('enc'), e.get('dvs') or []
        if eidx == idx:
            hit = e
    if enc != 'fast' or hit is None or 'ract' not in hit:
        return False
    inactive = [dvs[i] for i, a in enumerate(hit['ract']) if not a and i < len(dvs) and not dvs[i].get('cond')]
    return bool(inactive) and all(d.get('kind') == 'sel' and d.get('c') in members for d in inactive)


@trigger
def OptionClosureContainsIncompatiblePair(payload):
    """Some option derives, by derivation edges alone, both ends of an incompatibility pair (the option conflicts
    with itself, not with anything confirmed)."""
    g = _g(payload)
    for c in g.get('ch', []):
        for o in c['opts']:
            clo = _derived_only(g, [o])
            if any(p[0] in clo and p[1] in clo for p in g.get('inc', [])):
                return True
    return False


@trigger
def PatternEncoderSelected(payload):
    """Selection ended with one of the pattern encoders (they size their variables from the unrestricted settings)."""
    return any('Pattern Encoder' in str(n) for n in (payload.get('selected') or []))


@trigger
def FastEncoderWithIncompatibility(payload):
    """History replayed on the fast encoder over a description with an incompatibility constraint (taking an option
    can remove options of another choice, which is then resolved automatically - also when it was fixed)."""
    return payload.get('enc') == 'fast' and bool(_g(payload).get('inc'))


def _permanent_nodes(g):
    """Nodes that exist in every architecture: derived from the start nodes over derivation edges and over choices that
    have a single option (those are resolved automatically)."""
    S = _derived_only(g, g.get('start', []))
    while True:
        T = set(S)
        for c in g.get('ch', []):
            if c['origin'] in S and len(c['opts']) == 1:
                T.add(c['opts'][0])
        T = _derived_only(g, T)
        if T == S:
            return S
        S = T


@trigger
def PermanentConnectionChoiceVariableInactive(payload):
    """Every variable that is not flagged conditionally active and is reported inactive at the failing event belongs to
    a connection choice with a PERMANENT source connector (its choice node exists in every architecture).  Without a
    failing event (a committed witness) the structural part decides."""
    g = _g(payload)
    perm = _permanent_nodes(g)
    permcc = set()
    for k, c in enumerate(g.get('cc', []), 1):
        srcs = set(c['src'])
        for sid in list(srcs):
            nd = g['nodes'][sid-1]
            if nd['t'] == 'grp':
                srcs |= set(nd['members'])
        if srcs & perm:
            permcc.add(k)
    if not permcc:
        return False
    idx = payload.get('fail_idx')
    ev = (payload.get('trace') or {}).get('ev') or []
    if idx is None or not ev:
        return True
    dvs, hit = [], None
    for pos, e in enumerate(ev):
        eidx = e.get('idx', pos+1)
        if e.get('e') == 'New' and eidx <= idx:
            dvs = e.get('dvs') or []
        if eidx == idx:
            hit = e
    if hit is None or 'ract' not in hit:
        return False
    inactive = [dvs[i] for i, a in enumerate(hit['ract']) if not a and i < len(dvs) and not dvs[i].get('cond')]
    return bool(inactive) and all(d.get('kind') == 'conn' and d.get('c') in permcc for d in inactive)


@trigger
def HasConnectionChoice(payload):
    return bool(_g(payload).get('cc'))


@trigger
def GroupingWithMixedRepeatability(payload):
    """A grouping connector whose members differ in the repeated-connection flag."""
    g = _g(payload)
    for nd in g.get('nodes', []):
        if nd['t'] == 'grp':
            flags = {g['nodes'][m-1]['rep'] for m in nd['members']}
            if len(flags) > 1:
                return True
    return False


@trigger
def AllSourcesConditional(payload):
    """Some connection choice has no permanent source connector (its choice node can disappear, leaving targets
    without any connection choice)."""
    g = _g(payload)
    perm = set(g.get('start', []))
    while True:
        T = set(perm)
        for s, t in g.get('der', []):
            if s in perm:
                T.add(t)
        if T == perm:
            break
        perm = T
    return any(not (set(c['src']) & perm) for c in g.get('cc', []))


def _derived_only(g, roots):
    S = set(roots)
    while True:
        T = set(S)
        for s, t in g.get('der', []):
            if s in S:
                T.add(t)
        if T == S:
            return S
        S = T


def _possible_nodes(g):
    """Nodes that can exist in some architecture, not counting options whose own derivation closure contains a node
    incompatible with a permanent node (such options are removed at initialisation)."""
    perm = _derived_only(g, g.get('start', []))
    inc = [set(p) for p in g.get('inc', [])]
    S = set(perm)
    while True:
        T = set(S)
        for c in g.get('ch', []):
            if c['origin'] in S:
                for o in c['opts']:
                    clo = _derived_only(g, [o])
                    if any((p & clo) and (p & perm) and not p <= clo for p in inc):
                        continue
                    T |= clo
        T = _derived_only(g, T)
        if T == S:
            return S
        S = T


@trigger
def ConnectionTargetNeedsSourceThatCannotExist(payload):
    """A connection choice none of whose source connectors can exist in any architecture (they hang under options that
    an incompatibility with a permanent node removes), while one of its targets can exist and needs a connection: the
    selection encoder counts the architectures with that target as valid, materialising one shows it infeasible."""
    g = _g(payload)
    poss = _possible_nodes(g)
    for c in g.get('cc', []):
        if set(c['src']) & poss:
            continue
        for t in c['tgt']:
            nd = g['nodes'][t-1]
            needs = (min(nd['dl']) >= 1) if nd['dl'] else nd['dmin'] >= 1
            if t in poss and needs:
                return True
    return False


@trigger
def NestedChoiceWithIncompatibility(payload):
    """An incompatibility pair exists and some selection choice originates below an option of another choice."""
    g = _g(payload)
    if not g.get('inc'):
        return False
    for c in g.get('ch', []):
        below = _potential_from(g, c['opts'])
        if any(c2 is not c and c2['origin'] in below for c2 in g['ch']):
            return True
    return False


@trigger
def GroupingWithConditionalMember(payload):
    """A grouping connector with a member connector that is not permanent."""
    g = _g(payload)
    perm = set(g.get('start', []))
    while True:
        T = set(perm)
        for s, t in g.get('der', []):
            if s in perm:
                T.add(t)
        if T == perm:
            break
        perm = T
    for nd in g.get('nodes', []):
        if nd['t'] == 'grp' and any(m not in perm for m in nd['members']):
            return True
    return False


@trigger
def NestedTimeLimiterCall(payload):
    return (payload.get('rec') or {}).get('kind') == 'nested'


def _perm_nodes(g):
    perm = set(g.get('start', []))
    while True:
        T = set(perm)
        for s, t in g.get('der', []):
            if s in perm:
                T.add(t)
        if T == perm:
            return perm
        perm = T


def _cons_member_not_permanent(g, types):
    perm = _perm_nodes(g)
    for c in g.get('cons', []):
        if c['type'] in types and any(g['ch'][m-1]['origin'] not in perm for m in c.get('m', [])):
            return True
    return False


@trigger
def OrderingConstraintMemberNotPermanent(payload):
    """An UNORDERED / UNORDERED_NOREPL constraint with a member choice that is not on a permanent node."""
    return _cons_member_not_permanent(_g(payload), ('unord', 'unordnr'))


@trigger
def LinkedConstraintMemberNotPermanent(payload):
    return _cons_member_not_permanent(_g(payload), ('linked',))
