"""Narrow, named structural predicates used ONLY to attribute a freshly found violation to a committed known finding
(same property + same clause + trigger holds).  They never make a check pass that would otherwise fail for another
reason, and never produce a violation."""

REG = {}


def trigger(fn):
    REG[fn.__name__] = fn
    return fn


def holds(name, payload):
    if not name:
        return False
    fn = REG.get(name)
    return bool(fn and fn(payload))
