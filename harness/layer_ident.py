"""Identity layer (C18)."""
import os
import shutil
import tempfile
from harness import drive_ident, gen_graph, gen_proc, gen_cc, gen_cons, tlc
from harness.runner import first_per_clause, pmap, CACHE


def multi_start_graph():
    """Three start nodes (the start set is a set: its iteration order depends on the interpreter's hash seed)."""
    from harness.gd import empty
    g = empty(11)
    g['start'] = [1, 2, 3, 11]          # 11: a start node without any edge (exports must still contain it)
    g['der'] = [[1, 4], [2, 5], [3, 6], [4, 7], [8, 10]]
    g['ch'] = [{'origin': 5, 'opts': [8, 9]}]
    g['feat'] = ['multi_start']
    return g


def preconstrained_graph():
    """Four two-option choices on permanent nodes, the first two already linked: the editor's add_constraint then
    constrains the other two on ONE side (a copy must not share its constraint list with the original)."""
    from harness.gd import empty
    g = empty(13)
    g['der'] = [[1, 2], [1, 3], [1, 4], [1, 5]]
    g['ch'] = [{'origin': 2, 'opts': [6, 7]}, {'origin': 3, 'opts': [8, 9]}, {'origin': 4, 'opts': [10, 11]}, {'origin': 5, 'opts': [12, 13]}]
    g['cons'] = [{'type': 'linked', 'm': [1, 2], 'dv': []}]
    g['feat'] = ['preconstrained']
    return g


def corpus(ctx):
    rng = ctx.rng('ident')
    gs = [gen_graph.theory_example(), gen_cc.theory_conn_example(), multi_start_graph(), preconstrained_graph()]
    n = 10 if ctx.quick else 250
    for i in range(n):
        r = rng.random()
        if r < 0.5:
            gs.append(gen_proc.random_proc_graph(rng, nmin=4, nmax=8, max_space=24, max_ch=3))
        elif r < 0.8:
            gs.append(gen_cc.random_cc_graph(rng, nmin=3, nmax=6, max_s=2, max_t=2))
        else:
            fam = gen_cons.family(True)
            gs.append(fam[rng.randrange(len(fam))])
    return gs


def edits_one(item):
    tid, g, seqs = item
    try:
        return drive_ident.drive_edits(g, seqs, tid=tid)
    except Exception:
        import traceback
        return {'tid': tid, 'g': g, 'crash': traceback.format_exc(limit=8)}


def proc_one(item):
    tid, g, wd, seed = item
    try:
        return drive_ident.drive_process(g, wd, tid=tid, other_seed=str(1000+seed))
    except Exception:
        import traceback
        return {'tid': tid, 'g': g, 'crash': traceback.format_exc(limit=8)}


def run(ctx):
    gs = corpus(ctx)
    wd = tempfile.mkdtemp(prefix='ident-', dir=CACHE if os.path.isdir(CACHE) else None)
    try:
        seqs, st, tr = drive_ident.generate_sequences(2 if ctx.quick else 3, os.path.join(wd, 'gen'))
        if not ctx.quick and len(seqs) > 600:
            rng = ctx.rng('ident-seqs')
            seqs = rng.sample(seqs, 600)
        t1 = pmap(edits_one, [(i, g, seqs) for i, g in enumerate(gs)], seed=ctx.seed)
        t2 = pmap(proc_one, [(len(gs)+i, g, wd, ctx.seed) for i, g in enumerate(gs)], seed=ctx.seed, chunksize=1)
    finally:
        shutil.rmtree(wd, ignore_errors=True)
    traces = t1 + t2
    crashed = [t for t in traces if 'crash' in t]
    if crashed:
        raise tlc.MachineryError('identity driver crashed:\n' + crashed[0]['crash'])
    traces = [t for t in traces if 'skip' not in t]
    mon = tlc.run_monitor('Mon_Ident', traces, cfg='Mon_Ident.cfg', shards=16)
    out = {'n_traces': len(traces), 'n_graphs': len(gs), 'states': mon['states'] + st, 'transitions': mon['transitions'] + tr,
           'edit_sequences': len(seqs), 'steps': sum(len(e.get('steps', [])) for t in traces for e in t['ev']),
           'fails': [], 'samples': []}
    for t in traces:
        v = mon['verdicts'][t['tid']]
        if v[2]:
            out['fails'].append({'tid': t['tid'], 'fails': first_per_clause(v[2]), 'g': t['g'],
                                 'events': [e for i, e in enumerate(t['ev']) if any(f[1] == i+1 for f in v[2])][:3]})
    out['samples'] = [{'sequence': seqs[5][0] if len(seqs) > 5 else [], 'expected_equal_at_end': seqs[5][1] if len(seqs) > 5 else None},
                      {'process_events': t2[0]['ev'] if t2 and 'ev' in t2[0] else []}]
    return out
