"""Time limiter layer (C19): TimeLimiter.tla model checking, schedule-controlled replay, uncontrolled sweep."""
import json
import os
import shutil
import subprocess
import sys
import tempfile
from harness import tlc
from harness.runner import CACHE, VERIF

CONFIGS = [  # (name, LEVELS, JoinOnExceptionPath, OwnTimeoutDistinct, expected to hold)
    ('single_call_as_in_tree', 1, 'FALSE', 'TRUE', True),
    ('own_timeout_not_distinct_pre_fix', 1, 'FALSE', 'FALSE', False),
    ('nested_as_in_tree', 2, 'FALSE', 'TRUE', False),
    ('nested_with_join_on_exception_path', 2, 'TRUE', 'TRUE', True),
]


def model_check(wd, quick):
    res = {}
    for name, lv, join, own, holds in CONFIGS:
        if quick and name == 'nested_with_join_on_exception_path':
            continue            # 860k states, 20 s: thorough only
        cfg = os.path.join(wd, name+'.cfg')
        with open(cfg, 'w') as fh:
            fh.write('SPECIFICATION Spec\nCONSTANTS LEVELS = %d  JoinOnExceptionPath = %s  OwnTimeoutDistinct = %s\n'
                     'INVARIANT OutcomeCorrect\nINVARIANT NoneRunningAfterReturn\nINVARIANT CallerNeverInterrupted\n'
                     'INVARIANT NothingLeftBehind\nPROPERTY Termination\nCHECK_DEADLOCK FALSE\n' % (lv, join, own))
        out, wall, rc = tlc.run_tlc('TimeLimiter', cfg=cfg, workers=8, timeout=900, workdir=os.path.join(wd, 'tlc_'+name))
        violated = 'is violated' in out or 'was violated' in out
        if not violated and tlc.tlc_failed(out, rc):
            raise tlc.MachineryError('TLC failed on TimeLimiter/%s:\n%s' % (name, out[-1500:]))
        st, tr = tlc.tlc_stats(out)
        which = [l.split('Invariant ')[1].split(' is')[0] for l in out.splitlines() if 'Invariant' in l and 'is violated' in l]
        res[name] = {'levels': lv, 'violated': violated, 'which': which, 'expected_to_hold': holds, 'states': st,
                     'transitions': tr, 'as_expected': violated != holds}
    return res


def behaviours(wd):
    cfg = os.path.join(wd, 'gen.cfg')
    with open(cfg, 'w') as fh:
        fh.write('SPECIFICATION Spec\nCONSTANTS LEVELS = 1  JoinOnExceptionPath = FALSE  OwnTimeoutDistinct = TRUE\n'
                 'INVARIANT EmitBehaviour\nCHECK_DEADLOCK FALSE\n')
    out, wall, rc = tlc.run_tlc('TimeLimiter', cfg=cfg, workers=1, timeout=600, workdir=os.path.join(wd, 'tlc_gen'))
    if tlc.tlc_failed(out, rc):
        raise tlc.MachineryError('TLC failed generating behaviours:\n' + out[-1500:])
    return [(b[1], b[2]) for b in tlc.extract_printed(out, 'BEH')]


def sweep_cases(ctx):
    rng = ctx.rng('tl-sweep')
    cases = []
    limit = 0.10
    fracs = [0.1, 0.3, 0.6, 0.8, 0.9, 0.96, 1.0, 1.04, 1.1, 1.3, 1.8, 2.6]
    reps = 1 if ctx.quick else 6
    for _ in range(reps):
        for f in fracs:
            for kind in ('sleep', 'raise', 'owntimeout', 'ownmemerr', 'native', 'swallow', 'retnone', 'retzero', 'retempty'):
                if ctx.quick and f not in (0.3, 2.6) and rng.random() < 0.45:       # one early and one late case per kind always
                    continue
                cases.append({'kind': kind, 'limit': limit, 'dur': round(limit*f, 4), 'inner_limit': 0})
    # nested calls: outer limit, inner limit, function duration
    # (the fourth: a generous outer limit around an inner call that must expire on its own, shorter limit)
    for outer, inner, dur in ((0.1, 0.2, 0.5), (0.3, 0.1, 0.5), (0.3, 0.2, 0.05), (4.0, 0.1, 1.5)):
        cases.append({'kind': 'nested', 'limit': outer, 'dur': dur, 'inner_limit': inner})
    for i, c in enumerate(cases):
        c.update(rkind='sweep', limit_ms=int(c['limit']*1000), dur_ms=int(c['dur']*1000), inner_ms=int(c['inner_limit']*1000))
    return cases


def _child(payload_path, out_path):
    """Runs in a separate interpreter (threads, hooks and stray asynchronous exceptions stay contained)."""
    from harness import drive_tl
    with open(payload_path) as fh:
        payload = json.load(fh)
    recs = []
    for i, (beh, exp) in enumerate(payload['behaviours']):
        if not drive_tl.realisable(beh):
            recs.append({'rkind': 'skipped', 'tid': i, 'beh': beh})
            continue
        r = drive_tl.run_schedule(beh, exp, tid=i)
        r['rkind'] = 'schedule'
        recs.append(r)
    base = len(recs)
    for j, c in enumerate(payload['sweep']):
        r = drive_tl.sweep_case(c)
        r['tid'] = base + j
        recs.append(r)
    with open(out_path, 'w') as fh:
        json.dump(recs, fh)


def run(ctx):
    wd = tempfile.mkdtemp(prefix='tl-', dir=CACHE if os.path.isdir(CACHE) else None)
    try:
        mc = model_check(wd, ctx.quick)
        behs = behaviours(wd)
        sweep = sweep_cases(ctx)
        pin, pout = os.path.join(wd, 'in.json'), os.path.join(wd, 'out.json')
        with open(pin, 'w') as fh:
            json.dump({'behaviours': behs, 'sweep': sweep}, fh)
        env = dict(os.environ, ADSG_CORE_VERIF='1')
        p = subprocess.run([sys.executable, '-c', 'import sys; from harness import layer_tl; layer_tl._child(sys.argv[1], sys.argv[2])',
                            pin, pout], cwd=VERIF, env=env, stdout=subprocess.PIPE, stderr=subprocess.PIPE, text=True, timeout=1500)
        if p.returncode != 0 or not os.path.exists(pout):
            raise tlc.MachineryError('time-limiter replay child failed:\n' + (p.stderr or '')[-2000:])
        with open(pout) as fh:
            recs = json.load(fh)
        skipped = [r for r in recs if r['rkind'] == 'skipped']
        live = [r for r in recs if r['rkind'] != 'skipped']
        mon = tlc.run_monitor('Mon_TL', live, cfg='Mon_TL.cfg', shards=4)
        fails = []
        for r in live:
            v = mon['verdicts'][r['tid']]
            if v[2]:
                fails.append({'tid': r['tid'], 'fails': v[2], 'rec': r})
        return {'mc': mc, 'n_behaviours': len(behs), 'n_replayed': sum(1 for r in live if r['rkind'] == 'schedule'),
                'n_skipped_unrealisable': len(skipped), 'n_left_forced_behaviour': sum(1 for r in live if r['rkind'] == 'schedule' and r.get('unrealised')), 'n_sweep': sum(1 for r in live if r['rkind'] == 'sweep'),
                'states': mon['states'] + sum(m['states'] for m in mc.values()),
                'transitions': mon['transitions'] + sum(m['transitions'] for m in mc.values()), 'fails': fails,
                'samples': [{k: r[k] for k in ('beh', 'expected', 'outcome', 'hooks', 'released', 'delivered', 'running_after')}
                            for r in live if r['rkind'] == 'schedule'][10:12] +
                           [{k: r[k] for k in ('kind', 'limit_ms', 'dur_ms', 'outcome', 'running_after', 'elapsed_ms')}
                            for r in live if r['rkind'] == 'sweep'][:2]}
    finally:
        shutil.rmtree(wd, ignore_errors=True)


def replay(payload):
    """Re-run one record (schedule or sweep case) on the current tree."""
    wd = tempfile.mkdtemp(prefix='tlr-', dir=CACHE if os.path.isdir(CACHE) else None)
    try:
        pin, pout = os.path.join(wd, 'in.json'), os.path.join(wd, 'out.json')
        rec = payload['rec']
        body = {'behaviours': [(rec['beh'], rec['expected'])], 'sweep': []} if rec['rkind'] == 'schedule' else \
            {'behaviours': [], 'sweep': [{k: rec[k] for k in ('kind', 'limit', 'dur', 'inner_limit', 'rkind', 'limit_ms', 'dur_ms', 'inner_ms')}]}
        with open(pin, 'w') as fh:
            json.dump(body, fh)
        env = dict(os.environ, ADSG_CORE_VERIF='1')
        p = subprocess.run([sys.executable, '-c', 'import sys; from harness import layer_tl; layer_tl._child(sys.argv[1], sys.argv[2])',
                            pin, pout], cwd=VERIF, env=env, stdout=subprocess.PIPE, stderr=subprocess.PIPE, text=True, timeout=300)
        if p.returncode != 0:
            raise tlc.MachineryError('replay child failed:\n' + (p.stderr or '')[-1500:])
        with open(pout) as fh:
            recs = [r for r in json.load(fh) if r['rkind'] != 'skipped']
        if not recs:
            return []
        mon = tlc.run_monitor('Mon_TL', recs, cfg='Mon_TL.cfg', shards=1)
        return mon['verdicts'][recs[0]['tid']][2]
    finally:
        shutil.rmtree(wd, ignore_errors=True)
