"""Driver for the connection-coding layer (C09, C10, and the per-settings part of C12).

An sdesc (settings description) is a JSON document:
  src, tgt : lists of {dl: [degrees] or [], dmin, dmax (-1 = open-ended), rep}
  excl     : list of [i, j] (0-based source/target indices)
  pats     : list of {sx: [bool], tx: [bool], so: [[i, [degrees]]...], to: [[j, [degrees]]...]} or [] (= always exist)
  mcp      : max_conn_parallel or 0 (= library default)
"""
import itertools
import math

import numpy as np


def make_node(nd):
    from adsg_core.optimization.assign_enc.matrix import Node
    if nd['dl']:
        return Node(list(nd['dl']), repeated_allowed=nd['rep'])
    if nd['dmax'] < 0:
        return Node(min_conn=nd['dmin'], repeated_allowed=nd['rep'])
    return Node(min_conn=nd['dmin'], max_conn=nd['dmax'], repeated_allowed=nd['rep'])


def make_settings(sd):
    from adsg_core.optimization.assign_enc.matrix import MatrixGenSettings, NodeExistence, NodeExistencePatterns
    src = [make_node(n) for n in sd['src']]
    tgt = [make_node(n) for n in sd['tgt']]
    excl = [(src[i], tgt[j]) for i, j in sd['excl']] or None
    pats = None
    plist = []
    if sd['pats']:
        for p in sd['pats']:
            plist.append(NodeExistence(src_exists=list(p['sx']), tgt_exists=list(p['tx']),
                                       src_n_conn_override={i: list(d) for i, d in p['so']} or None,
                                       tgt_n_conn_override={j: list(d) for j, d in p['to']} or None))
        pats = NodeExistencePatterns(plist)
    else:
        plist = [NodeExistence()]
    st = MatrixGenSettings(src, tgt, excluded=excl, existence=pats, max_conn_parallel=sd['mcp'] or None)
    return st, plist


def mat(m):
    return [[int(v) for v in row] for row in m]


def node_obs(nd):
    # the Node object as the library normalised it (conns list or open-ended minimum)
    return {'conns': [int(c) for c in nd.conns] if nd.conns is not None else [], 'inf': bool(nd.max_inf),
            'min': int(nd.min_conns) if nd.min_conns is not None else 0, 'rep': bool(nd.rep)}


def box(cap, limit, rng):
    """All matrices of the cap box (plus one beyond the cap per cell) when few, else a seeded sample."""
    ns, nt = len(cap), len(cap[0]) if cap else 0
    cells = [(i, j) for i in range(ns) for j in range(nt)]
    ranges = [list(range(cap[i][j]+1)) for i, j in cells]
    total = 1
    for r in ranges:
        total *= len(r)
    out = []
    if total <= limit:
        for vals in itertools.product(*ranges):
            m = [[0]*nt for _ in range(ns)]
            for (i, j), v in zip(cells, vals):
                m[i][j] = v
            out.append(m)
    else:
        for _ in range(limit):
            m = [[0]*nt for _ in range(ns)]
            for (i, j), r in zip(cells, ranges):
                m[i][j] = rng.choice(r)
            out.append(m)
    # beyond the per-pair limit: must be rejected
    for (i, j) in cells[:4]:
        m = [[0]*nt for _ in range(ns)]
        m[i][j] = cap[i][j]+1
        out.append(m)
    return out, total <= limit


def drive_matrix(sd, tid=0, seed=0, box_limit=800):
    """C09 events for one settings description."""
    import random
    from adsg_core.optimization.assign_enc.matrix import AggregateAssignmentMatrixGenerator
    rng = random.Random(seed*7919+tid)
    ev = []
    new = {'e': 'Settings', 'err': '', 'src': [], 'tgt': [], 'npat': 0}
    try:
        st, plist = make_settings(sd)
        gen = AggregateAssignmentMatrixGenerator(st)
        gen.reset_agg_matrix_cache()
        new['src'] = [node_obs(n) for n in st.src]
        new['tgt'] = [node_obs(n) for n in st.tgt]
        new['npat'] = len(plist)
    except Exception as e:
        if 'Duplicate node existence patterns' in str(e):
            return {'tid': tid, 'skip': 'duplicate existence patterns (generator artefact, rejected by the library)'}
        new['err'] = type(e).__name__
        new['msg'] = str(e)[:200]
        ev.append(new)
        return {'tid': tid, 's': sd, 'ev': ev}
    ev.append(new)
    # cache history: in half of the runs the very first (cold cache) query asks for ONE existence pattern only
    if plist and rng.random() < 0.5:
        try:
            list(gen.iter_matrices(existence=plist[rng.randrange(len(plist))]))
        except Exception:
            pass
    # counting without generating, then generate, then count again
    cnt = {'e': 'Count', 'err': '', 'cold_sum': -1, 'cold_max': -1, 'warm_sum': -1, 'warm_max': -1}
    try:
        cnt['cold_sum'] = int(gen.count_all_matrices(max_by_existence=False))
        cnt['cold_max'] = int(gen.count_all_matrices(max_by_existence=True))
    except Exception as e:
        cnt['err'] = type(e).__name__
        cnt['msg'] = str(e)[:200]
    try:
        agg = gen.get_agg_matrix(cache=False)
        agg_err = ''
    except Exception as e:
        agg, agg_err = {}, type(e).__name__ + ': ' + str(e)[:150]
    for pi, ex in enumerate(plist):
        pe = {'e': 'Pat', 'pi': pi+1, 'err': agg_err, 'cap': [], 'agg': [], 'iter': [], 'val': [], 'box_complete': False,
              'sx': [bool(ex.has_src(i)) for i in range(len(sd['src']))],
              'tx': [bool(ex.has_tgt(j)) for j in range(len(sd['tgt']))],
              'so': [[int(i)+1, [int(d) for d in v]] for i, v in sorted(ex.src_n_conn_override.items())],
              'to': [[int(j)+1, [int(d) for d in v]] for j, v in sorted(ex.tgt_n_conn_override.items())]}
        try:
            cap = mat(gen.get_max_conn_mat(ex))
            pe['cap'] = cap
            if ex in agg:
                pe['agg'] = [mat(m) for m in agg[ex]]
            pe['iter'] = [mat(m) for m, _ in gen.iter_matrices(existence=ex)]
            # the box of matrices put to validate_matrix reaches one beyond every non-zero per-pair limit
            tests, complete = box([[c+1 if c >= 1 else c for c in row] for row in cap], box_limit, rng)
            pe['box_complete'] = complete
            for m in tests:
                pe['val'].append({'m': m, 'ok': bool(gen.validate_matrix(np.array(m, dtype=int), existence=ex))})
        except Exception as e:
            pe['err'] = (pe['err'] + ' ' + type(e).__name__ + ': ' + str(e)[:150]).strip()
        ev.append(pe)
    try:
        cnt['warm_sum'] = int(gen.count_all_matrices(max_by_existence=False))
        cnt['warm_max'] = int(gen.count_all_matrices(max_by_existence=True))
    except Exception as e:
        cnt['err'] = type(e).__name__
    ev.append(cnt)
    return {'tid': tid, 's': sd, 'ev': ev}


# ---------------------------------------------------------------------------------------------------------------
# C10: every registered encoder x imputers

class TimeBox(BaseException):
    pass


class timebox:
    """SIGALRM-based budget for one encoder (main thread of a worker process).  An encoder that exceeds it is skipped
    and counted as 'slow', which is neither a pass nor a violation."""

    def __init__(self, seconds):
        self.seconds = seconds

    def __enter__(self):
        import signal

        def handler(signum, frame):
            raise TimeBox()
        self.old = signal.signal(signal.SIGALRM, handler)
        signal.setitimer(signal.ITIMER_REAL, self.seconds)

    def __exit__(self, *a):
        import signal
        signal.setitimer(signal.ITIMER_REAL, 0)
        signal.signal(signal.SIGALRM, self.old)
        return False


def registry():
    from adsg_core.optimization.assign_enc import encoder_registry as R
    regs = []
    for i, f in enumerate(R.EAGER_ENCODERS):
        regs.append(('eager', i, f))
    for i, f in enumerate(R.LAZY_ENCODERS):
        regs.append(('lazy', i, f))
    for i, f in enumerate(R.EAGER_ENUM_ENCODERS):
        regs.append(('enum', i, f))
    for i, f in enumerate(R.PATTERN_ENCODERS):
        regs.append(('pattern', i, f))
    return regs


def imputers(kind):
    """Imputer factories for an encoder kind: default first.  The constraint-violation imputers are left out: they
    deliberately return an invalid (violated) design instead of imputing, which is their documented purpose."""
    from adsg_core.optimization.assign_enc import encoder_registry as R
    from adsg_core.optimization.assign_enc.eager.imputation.constraint_violation import ConstraintViolationImputer
    from adsg_core.optimization.assign_enc.lazy.imputation.constraint_violation import LazyConstraintViolationImputer
    if kind == 'eager':
        fs = [R.DEFAULT_EAGER_IMPUTER] + list(R.EAGER_IMPUTERS)
        bad = ConstraintViolationImputer
    else:
        fs = [R.DEFAULT_LAZY_IMPUTER] + list(R.LAZY_IMPUTERS)
        bad = LazyConstraintViolationImputer
    out = []
    seen = set()
    for f in fs:
        imp = f()
        if isinstance(imp, bad):
            continue
        key = repr(imp)
        if key in seen:
            continue
        seen.add(key)
        out.append(f)
    return out


def vec_space(nopts, cap, rng):
    import itertools
    size = 1
    for n in nopts:
        size *= n
    if size <= cap:
        return [list(x) for x in itertools.product(*[range(n) for n in nopts])], True
    xs = set()
    while len(xs) < cap:
        xs.add(tuple(rng.randrange(n) for n in nopts))
    return [list(x) for x in sorted(xs)], False


def drive_coding(sd, tid=0, seed=0, cap=200, all_imputers=False, enc_filter=None, max_pats=4, budget=20.0):
    import random
    from adsg_core.optimization.assign_enc.matrix import AggregateAssignmentMatrixGenerator
    from adsg_core.optimization.assign_enc.assignment_manager import AssignmentManager, LazyAssignmentManager
    from adsg_core.optimization.assign_enc.lazy_encoding import LazyEncoder
    from adsg_core.optimization.assign_enc.patterns.encoder import InvalidPatternEncoder
    rng = random.Random(seed*104729+tid)
    ev = []
    new = {'e': 'Settings', 'err': '', 'npat': 0}
    try:
        st, plist = make_settings(sd)
        gen = AggregateAssignmentMatrixGenerator(st)
        new['npat'] = len(plist)
    except Exception as e:
        if 'Duplicate node existence patterns' in str(e):
            return {'tid': tid, 'skip': 'duplicate existence patterns'}
        new['err'] = type(e).__name__
        ev.append(new)
        return {'tid': tid, 's': sd, 'ev': ev}
    ev.append(new)
    for pi, ex in enumerate(plist):
        ev.append({'e': 'Pat', 'pi': pi+1, 'err': '', 'cap': mat(gen.get_max_conn_mat(ex)),
                   'so': [[int(i)+1, [int(d) for d in v]] for i, v in sorted(ex.src_n_conn_override.items())],
                   'to': [[int(j)+1, [int(d) for d in v]] for j, v in sorted(ex.tgt_n_conn_override.items())]})
    for kind, idx, factory in registry():
        if enc_filter and not enc_filter(kind, idx):
            continue
        imps = imputers('eager' if kind == 'eager' else 'lazy')
        chosen = imps if all_imputers else [imps[0], imps[1 + rng.randrange(len(imps)-1)]]
        for impf in chosen:
            mark = len(ev)
            try:
                with timebox(budget):
                    _drive_encoder(ev, st, plist, kind, idx, factory, impf, cap, rng, max_pats)
            except TimeBox:
                del ev[mark:]
                ev.append({'e': 'Enc', 'kind': kind, 'idx': idx, 'name': 'slow', 'imp': repr(impf())[:60], 'err': '',
                           'refused': True, 'slow': True, 'ndv': [], 'cond': []})
    return {'tid': tid, 's': sd, 'ev': ev}


def _drive_encoder(ev, st, plist, kind, idx, factory, impf, cap, rng, max_pats, mgr=None):
    from adsg_core.optimization.assign_enc.assignment_manager import AssignmentManager, LazyAssignmentManager
    from adsg_core.optimization.assign_enc.lazy_encoding import LazyEncoder
    from adsg_core.optimization.assign_enc.patterns.encoder import InvalidPatternEncoder
    ee = {'e': 'Enc', 'kind': kind, 'idx': idx, 'name': '', 'imp': '', 'err': '', 'refused': False, 'ndv': [],
          'cond': []}
    try:
        if mgr is None:
            enc = factory(impf())
            ee['name'] = str(enc)[:80]
            ee['imp'] = repr(impf())[:60]
            cls = LazyAssignmentManager if isinstance(enc, LazyEncoder) else AssignmentManager
            mgr = cls(st, enc)
        else:
            ee['name'] = str(mgr.encoder)[:80]
            ee['imp'] = 'selected'
        ee['ndv'] = [int(dv.n_opts) for dv in mgr.design_vars]
        ee['cond'] = [bool(dv.conditionally_active) for dv in mgr.design_vars]
    except InvalidPatternEncoder:
        ee['refused'] = True
        ev.append(ee)
        return
    except Exception as e:
        ee['err'] = type(e).__name__
        ee['msg'] = str(e)[:160]
        ev.append(ee)
        return
    ev.append(ee)
    ndv = ee['ndv']
    xs, complete = vec_space(ndv, cap, rng)
    odd = []
    if ndv:
        odd = [[-3]+[0]*(len(ndv)-1), [n for n in ndv], [n+5 for n in ndv], [0]*len(ndv)+[1, 0]]
    else:
        odd = [[1], [0, 2]]
    try:
        allv = mgr.get_all_design_vectors()
        allerr = ''
    except Exception as e:
        allv, allerr = {}, type(e).__name__
    pis = list(range(len(plist)))
    if len(pis) > max_pats:
        pis = sorted(rng.sample(pis, max_pats))
    for pi in range(len(plist)):
        ex = plist[pi]
        if pi not in pis:
            # patterns that are not decoded still contribute their listed vectors (used values per variable)
            ae = {'e': 'All', 'pi': pi+1, 'err': allerr, 'rows': [], 'complete': False}
            if ex in allv:
                ae['rows'] = [[int(v) for v in row] for row in allv[ex]]
            ev.append(ae)
            continue
        for x in xs + odd:
            de = {'e': 'CDec', 'pi': pi+1, 'x': [int(v) for v in x], 'err': '', 'rx': [], 'ract': [], 'm': [],
                  'hasm': False, 'odd': x in odd and x not in xs}
            try:
                rx, ract, m = mgr.get_matrix(np.array(x, dtype=int), existence=ex)
                de['rx'] = [int(v) for v in rx]
                de['ract'] = [bool(a) for a in ract]
                if m is not None and not (np.ndim(m) == 2 and m.size > 0 and m[0, 0] == -1):
                    de['m'] = mat(m)
                    de['hasm'] = True
            except Exception as e:
                de['err'] = type(e).__name__
                de['msg'] = str(e)[:160]
            ev.append(de)
            if not de['err'] and de['rx'] != de['x'] and not de['odd']:
                # the corrected vector is decoded again
                d2 = {'e': 'CDec', 'pi': pi+1, 'x': de['rx'], 'err': '', 'rx': [], 'ract': [], 'm': [],
                      'hasm': False, 'odd': False}
                try:
                    rx, ract, m = mgr.get_matrix(np.array(de['rx'], dtype=int), existence=ex)
                    d2['rx'] = [int(v) for v in rx]
                    d2['ract'] = [bool(a) for a in ract]
                    if m is not None and not (np.ndim(m) == 2 and m.size > 0 and m[0, 0] == -1):
                        d2['m'] = mat(m)
                        d2['hasm'] = True
                except Exception as e:
                    d2['err'] = type(e).__name__
                ev.append(d2)
        ae = {'e': 'All', 'pi': pi+1, 'err': allerr, 'rows': [], 'complete': complete}
        if ex in allv:
            ae['rows'] = [[int(v) for v in row] for row in allv[ex]]
        ev.append(ae)
