"""Descriptions with connection choices (C11, and the connection part of C01/C03/C04/C07/C08/C12)."""
from harness import gen_graph
from harness.gd import node, well_formed, closure_potential

CONN_TYPES = [
    dict(dl=[1]), dict(dmin=0, dmax=1), dict(dmin=1, dmax=2), dict(dmin=0, dmax=2), dict(dl=[0, 2]), dict(dl=[2]),
    dict(dmin=1, dmax=-1), dict(dmin=0, dmax=-1),
]


def conn_node(rng, light=False):
    spec = dict(rng.choice(CONN_TYPES[:5] if light else CONN_TYPES))
    return node('conn', dl=spec.get('dl'), dmin=spec.get('dmin', 1), dmax=spec.get('dmax', 1), rep=rng.random() < 0.4)


def add_connection_choice(g, rng, max_s=3, max_t=3, p_group=0.3, p_excl=0.3):
    """Attach one connection choice: each connector is a new node derived from a random existing plain node (so it is
    permanent or conditional like that node); optionally the first source is a grouping connector over two members."""
    plain = [i for i in range(1, g['n']+1) if g['nodes'][i-1]['t'] == 'plain']
    ns, nt = rng.randint(1, max_s), rng.randint(1, max_t)

    def new_conn(light=False):
        g['n'] += 1
        g['nodes'].append(conn_node(rng, light))
        g['der'].append([rng.choice(plain), g['n']])
        return g['n']

    src, tgt = [], []
    if rng.random() < p_group:
        members = [new_conn(light=True) for _ in range(2)]
        g['n'] += 1
        g['nodes'].append(node('grp', members=members))
        grp = g['n']
        if rng.random() < 0.5:
            src.append(grp)
            ns = max(1, ns-1)
        else:
            tgt.append(grp)
            nt = max(1, nt-1)
        g['feat'].append('grouping')
    src += [new_conn() for _ in range(ns - (1 if src else 0) if len(src) else ns)]
    tgt += [new_conn() for _ in range(nt - (1 if tgt else 0) if len(tgt) else nt)]
    excl = []
    if rng.random() < p_excl and len(src)*len(tgt) > 1:
        excl.append([rng.choice(src), rng.choice(tgt)])
        g['feat'].append('exclusion')
    g['cc'].append({'src': src, 'tgt': tgt, 'excl': excl})
    g['der'].sort()
    g['feat'].append('cc')
    return g


def random_cc_graph(rng, nmin=3, nmax=7, p_two=0.2, **kw):
    while True:
        g = gen_graph.random_graph(rng, nmin=nmin, nmax=nmax, max_ch=2, n_inc=(0, 1), max_space=12)
        add_connection_choice(g, rng, **kw)
        if rng.random() < p_two:          # a second, small connection choice (independent connectors)
            add_connection_choice(g, rng, max_s=2, max_t=2, p_group=0.0, p_excl=0.2)
            g['feat'].append('two_cc')
        if well_formed(g):
            continue
        return g


def theory_conn_example():
    """The connection-choice figure of docs/theory.md: C1 decides whether S2 exists; Grp groups S1,S2 (1..2 each);
    sources Grp and S3, targets T1, T2."""
    from harness.gd import empty
    g = empty(3)                       # 1 start, 2 = option 'with S2', 3 = option 'without'
    g['ch'] = [{'origin': 1, 'opts': [2, 3]}]
    # nodes: 4 S1 (1..2), 5 S2 (1..2), 6 Grp, 7 S3, 8 T1, 9 T2
    g['n'] = 9
    g['nodes'] += [node('conn', dmin=1, dmax=2, rep=True), node('conn', dmin=1, dmax=2, rep=True), node('grp', members=[4, 5]),
                   node('conn', dmin=0, dmax=2, rep=True), node('conn', dl=[1], rep=True), node('conn', dl=[0, 2], rep=True)]
    g['der'] = [[1, 4], [2, 5], [1, 7], [1, 8], [1, 9]]
    g['cc'] = [{'src': [6, 7], 'tgt': [8, 9], 'excl': []}]
    g['feat'] = ['theory_conn_example', 'cc', 'grouping']
    return g


def exclusion_with_conditional_target_examples():
    """One source (exactly 1 connection), three optional targets, one of which is conditional, an exclusion edge to a
    LATER target: in the scenario without the conditional target the exclusion must still hit the same connector.
    Both positions of the conditional target and of the excluded one."""
    from harness.gd import empty
    out = []
    for cond_pos, excl_pos in ((0, 1), (0, 2), (1, 2), (1, 0)):
        g = empty(3)                   # 1 start, 2 = option 'with', 3 = option 'without'
        g['ch'] = [{'origin': 1, 'opts': [2, 3]}]
        g['n'] = 7
        g['nodes'] += [node('conn', dl=[1])] + [node('conn', dmin=0, dmax=1) for _ in range(3)]
        tg = [5, 6, 7]
        g['der'] = [[1, 4]] + [[2 if i == cond_pos else 1, t] for i, t in enumerate(tg)]
        g['der'].sort()
        g['cc'] = [{'src': [4], 'tgt': tg, 'excl': [[4, tg[excl_pos]]]}]
        g['feat'] = ['cc', 'exclusion', 'exclusion_with_conditional_target']
        out.append(g)
    return out


def intermediate_infeasibility_example():
    """C1@1 {2,3,5}, C2@3 {4,6,7} (1-4 incompatible), grouping source 10 = {8 (under 6, exactly 1), 9 (permanent, 0..1)},
    target 11 (under 5, degree 0 or 2): after C1 = 3 the partial resolution is reported infeasible (the grouping source
    currently needs a connection, no target exists) although C2 = 7 removes member 8 and makes zero connections valid.
    An encoder must not give up on such a partial resolution."""
    from harness.gd import empty
    g = empty(7)
    g['n'] = 11
    g['nodes'] += [node('conn', dl=[1]), node('conn', dmin=0, dmax=1, rep=True), node('grp', members=[8, 9]), node('conn', dl=[0, 2])]
    g['der'] = [[1, 9], [4, 6], [5, 3], [5, 11], [6, 8]]
    g['ch'] = [{'origin': 1, 'opts': [2, 3, 5]}, {'origin': 3, 'opts': [4, 6, 7]}]
    g['inc'] = [[1, 4]]
    g['cc'] = [{'src': [10], 'tgt': [11], 'excl': []}]
    g['feat'] = ['cc', 'grouping', 'intermediate_infeasibility']
    return g
