"""Driver for C18: identity, equality, fingerprints, pickling, cross-process stability, exports."""
import json
import os
import pickle
import subprocess
import sys

from harness.build import build, build_raw, SkipInput
from harness import tlc

EDITS = ['add_node', 'add_edge', 'remove_node', 'remove_edge', 'add_inc', 'add_start', 'add_constraint']


def generate_sequences(depth, workdir):
    os.makedirs(workdir, exist_ok=True)
    cfg = os.path.join(workdir, 'ident.cfg')
    with open(cfg, 'w') as fh:
        fh.write('SPECIFICATION Spec\nCONSTANTS Edits = {%s}  MaxDepth = %d\nINVARIANT EmitHist\nINVARIANT Symmetric\n'
                 'CONSTRAINT Bound\nCHECK_DEADLOCK FALSE\n' % (', '.join('"%s"' % e for e in EDITS), depth))
    out, wall, rc = tlc.run_tlc('Identity', cfg=cfg, workers=1, timeout=600, workdir=os.path.join(workdir, 'tlc'))
    if tlc.tlc_failed(out, rc):
        raise tlc.MachineryError('TLC failed on Identity:\n' + out[-1500:])
    seqs = {}
    for v in tlc.extract_printed(out, 'HIST'):
        seqs[json.dumps(v[1])] = (v[1], v[2])
    st, tr = tlc.tlc_stats(out)
    return list(seqs.values()), st, tr


class Editor:
    """Applies the independent edits to one side; the SAME node objects are used on both sides."""

    def __init__(self, b):
        from adsg_core.graph.adsg_nodes import NamedNode
        self.b = b
        self.x = NamedNode('X_added')
        self.y1, self.y2 = NamedNode('Y1_added'), NamedNode('Y2_added')
        gr = b.dsg.graph
        inv = b.inv
        from adsg_core.graph.graph_edges import EdgeType
        # a leaf node (no outgoing edges) that is not a start node, and a derivation edge between plain nodes
        start = set(b.dsg.derivation_start_nodes)
        leaves = sorted((n for n in gr.nodes if n in inv and gr.out_degree(n) == 0 and n not in start), key=lambda n: inv[n])
        self.leaf = leaves[0] if leaves else None
        ders = sorted(((s, t, k, d) for s, t, k, d in gr.edges(keys=True, data=True)
                       if s in inv and t in inv and d.get('type') == EdgeType.DERIVES and t is not self.leaf and s is not self.leaf),
                      key=lambda e: (inv[e[0]], inv[e[1]]))
        self.edge = ders[0] if ders else None
        plain = sorted((n for n in gr.nodes if n in inv and n is not self.leaf), key=lambda n: inv[n])
        self.inc = (plain[0], plain[-1]) if len(plain) >= 2 and plain[0] is not plain[-1] else None
        nonstart = [n for n in plain if n not in start]
        self.newstart = nonstart[-1] if nonstart else None
        chs = sorted((c for c in gr.nodes if c in b.chinv), key=lambda c: b.chinv[c])
        self.cpair = None
        for i in range(len(chs)):
            for j in range(i+1, len(chs)):
                if len(b.dsg.get_option_nodes(chs[i])) == len(b.dsg.get_option_nodes(chs[j])) and \
                        b.dsg.is_constrained_choice(chs[i]) is None and b.dsg.is_constrained_choice(chs[j]) is None:
                    self.cpair = [chs[i], chs[j]]
                    break
            if self.cpair:
                break

    def applicable(self, e):
        return {'add_node': True, 'add_edge': True, 'remove_node': self.leaf is not None, 'remove_edge': self.edge is not None,
                'add_inc': self.inc is not None, 'add_start': self.newstart is not None, 'add_constraint': self.cpair is not None}[e]

    def apply(self, d, e):
        from adsg_core.graph.choice_constraints import ChoiceConstraintType
        if e == 'add_node':
            d.add_node(self.x)
            return d
        if e == 'add_edge':
            d.add_edge(self.y1, self.y2)
            return d
        if e == 'remove_node':
            return d.get_for_adjusted(removed_nodes={self.leaf})
        if e == 'remove_edge':
            return d.get_for_adjusted(removed_edges={self.edge})
        if e == 'add_inc':
            d.add_incompatibility_constraint(list(self.inc))
            return d
        if e == 'add_start':
            d2 = d.copy()
            d2._mod_graph_inplace({'start_nodes': set(d.derivation_start_nodes) | {self.newstart}})
            return d2
        if e == 'add_constraint':
            d2 = d.copy()
            return d2.constrain_choices(ChoiceConstraintType.LINKED, list(self.cpair), remove_infeasible_choices=False)
        raise ValueError(e)


def drive_edits(g, seqs, tid=0):
    try:
        b = build(g)
    except SkipInput as e:
        return {'tid': tid, 'skip': str(e)}
    ed = Editor(b)
    ev = []
    a0 = b.dsg
    c0 = a0.copy()
    ev.append({'e': 'Copy', 'eq': bool(a0 == c0), 'hash_eq': hash(a0) == hash(c0), 'same_fp': a0.fingerprint() == c0.fingerprint(),
               'is_same': bool(a0.is_same(c0)), 'err': ''})
    for hist, expected in seqs:
        if not all(ed.applicable(h['edit']) for h in hist):
            continue
        side = {'A': a0.copy(), 'B': a0.copy()}
        rec = {'e': 'Seq', 'hist': hist, 'steps': [], 'err': ''}
        try:
            sets = {'A': set(), 'B': set()}
            for h in hist:
                side[h['side']] = ed.apply(side[h['side']], h['edit'])
                sets[h['side']].add(h['edit'])
                A, B = side['A'], side['B']
                rec['steps'].append({'expected_equal': sets['A'] == sets['B'], 'eq': bool(A == B), 'hash_eq': hash(A) == hash(B),
                                     'edit': h['edit'], 'side': h['side']})
        except Exception as ex:
            rec['err'] = type(ex).__name__ + ':' + str(ex)[:80]
        ev.append(rec)
    return {'tid': tid, 'g': g, 'ev': ev}


# ---- pickling, other processes, exports ---------------------------------------------------------------------------

def describe_processor(b, cap=64):
    """Design variables and the vector -> architecture mapping (small spaces only)."""
    import itertools
    from adsg_core.optimization.graph_processor import GraphProcessor
    from harness.drive_proc import dv_obs, inst_obs, xq, xreal
    p = GraphProcessor(b.dsg)
    dvs = dv_obs(b, p)
    out = {'dvs': [[d['kind'], d['c'], d['n'], d['lo'], d['hi'], d['cond']] for d in dvs], 'map': []}
    if all(d['disc'] for d in dvs):
        size = 1
        for d in dvs:
            size *= d['n']
        if size <= cap:
            for x in itertools.product(*[range(d['n']) for d in dvs]):
                inst, rx, ract = p.get_graph(list(x))
                o = inst_obs(b, inst)
                out['map'].append([list(x), xq(dvs, rx), [bool(a) for a in ract], o['nodes'], o['der'], o['con']])
    return p, out


def child_main(gfile, outfile, pklfile):
    """Runs in another interpreter (other PYTHONHASHSEED): build, fingerprint, describe, pickle."""
    with open(gfile) as fh:
        g = json.load(fh)
    b = build(g)
    try:
        p, desc = describe_processor(b)
    except Exception:       # as in drive_process: whether a processor can be built at all is C01's business
        p, desc = None, {'dvs': [], 'map': []}
    with open(pklfile, 'wb') as fh:
        pickle.dump({'dsg': b.dsg, 'proc': p}, fh)
    with open(outfile, 'w') as fh:
        json.dump({'fingerprint': str(b.dsg.fingerprint()), 'desc': desc, 'seed': os.environ.get('PYTHONHASHSEED')}, fh)


def drive_process(g, workdir, tid=0, other_seed='12345'):
    os.makedirs(workdir, exist_ok=True)
    try:
        b = build(g)
    except SkipInput as e:
        return {'tid': tid, 'skip': str(e)}
    ev = []
    rec = {'e': 'Pickle', 'err': '', 'graph_same': False, 'graph_fp_eq': False, 'graph_eq_nodes': False, 'proc_dvs_eq': False,
           'proc_map_eq': False}
    p, desc = None, {'dvs': [], 'map': []}
    try:
        try:
            p, desc = describe_processor(b)
        except Exception:
            p = None          # no processor for this description (infeasible design space, or a construction failure that
            #                   C01 judges): graph-level checks only
        d2 = pickle.loads(pickle.dumps(b.dsg))
        rec['graph_same'] = bool(b.dsg.is_same(d2))
        rec['graph_fp_eq'] = b.dsg.fingerprint() == d2.fingerprint()
        rec['graph_eq_nodes'] = len(d2.graph.nodes) == len(b.dsg.graph.nodes) and len(d2.graph.edges) == len(b.dsg.graph.edges)
        if p is None:
            rec['proc_dvs_eq'] = rec['proc_map_eq'] = True
            ev.append(rec)
            raise StopIteration
        p2 = pickle.loads(pickle.dumps(p))
        from harness.drive_proc import dv_obs
        # node objects differ after unpickling: compare through names
        rec['proc_dvs_eq'] = [(dv.name, dv.n_opts, dv.bounds) for dv in p.des_vars] == [(dv.name, dv.n_opts, dv.bounds) for dv in p2.des_vars]
        ok = True
        for x, rx, ract, nodes, der, con in desc['map']:
            inst, rx2, ract2 = p2.get_graph(list(x))
            names = sorted(n.name for n in inst.graph.nodes if hasattr(n, 'name') and n.name)
            names0 = sorted('N%02d' % i for i in nodes)
            if [int(v) for v in rx2] != rx or [bool(a) for a in ract2] != ract or names != names0:
                ok = False
        rec['proc_map_eq'] = ok
        ev.append(rec)
    except StopIteration:
        pass
    except Exception as ex:
        rec['err'] = type(ex).__name__ + ':' + str(ex)[:80]
        ev.append(rec)
    # another process with another hash seed
    rec2 = {'e': 'OtherProcess', 'err': '', 'fp_eq': False, 'desc_eq': False, 'unpickled_same': False, 'unpickled_fp_eq': False,
            'unpickled_proc_dvs_eq': False}
    gfile, ofile, pfile = (os.path.join(workdir, 'g%d.json' % tid), os.path.join(workdir, 'o%d.json' % tid), os.path.join(workdir, 'p%d.pkl' % tid))
    with open(gfile, 'w') as fh:
        json.dump(g, fh)
    env = dict(os.environ, PYTHONHASHSEED=other_seed)
    try:
        pr = subprocess.run([sys.executable, '-c', 'import sys; from harness import drive_ident; drive_ident.child_main(*sys.argv[1:4])',
                             gfile, ofile, pfile], env=env, cwd=os.path.dirname(os.path.dirname(os.path.abspath(__file__))),
                            stdout=subprocess.PIPE, stderr=subprocess.PIPE, text=True, timeout=300)
        if pr.returncode != 0:
            rec2['err'] = 'child failed: ' + (pr.stderr or '')[-200:]
        else:
            with open(ofile) as fh:
                other = json.load(fh)
            rec2['fp_eq'] = other['fingerprint'] == str(b.dsg.fingerprint())
            rec2['desc_eq'] = other['desc'] == json.loads(json.dumps(desc))
            with open(pfile, 'rb') as fh:
                up = pickle.load(fh)
            rec2['unpickled_same'] = bool(b.dsg.is_same(up['dsg']))
            rec2['unpickled_fp_eq'] = up['dsg'].fingerprint() == b.dsg.fingerprint()
            rec2['unpickled_proc_dvs_eq'] = (up['proc'] is None and p is None) or (
                up['proc'] is not None and p is not None and
                [(dv.name, dv.n_opts, dv.bounds) for dv in up['proc'].des_vars] == [(dv.name, dv.n_opts, dv.bounds) for dv in p.des_vars])
    except Exception as ex:
        rec2['err'] = type(ex).__name__ + ':' + str(ex)[:80]
    ev.append(rec2)
    # exports: every node and every edge (as a connected pair of node labels) of the graph must appear
    rec3 = {'e': 'Export', 'err': '', 'gml_missing_nodes': -1, 'gml_missing_edges': -1, 'dot_missing_nodes': -1,
            'dot_missing_edges': -1, 'n_nodes': len(b.dsg.graph.nodes), 'n_edges': len(b.dsg.graph.edges)}
    try:
        import re
        import networkx as nx
        gr = b.dsg.graph
        gml = b.dsg.export_gml()
        if isinstance(gml, (bytes, bytearray)):
            gml = gml.decode()
        pg = nx.parse_gml(gml, label='id')
        lab = {i: pg.nodes[i].get('label') for i in pg.nodes}
        gml_nodes = sorted(lab.values())
        want_nodes = sorted(str(n) for n in gr.nodes)
        rec3['gml_missing_nodes'] = len([x for x in want_nodes if x not in gml_nodes])
        gml_pairs = {(lab[u], lab[v]) for u, v in pg.edges()}
        rec3['gml_missing_edges'] = len([1 for u, v in gr.edges() if (str(u), str(v)) not in gml_pairs])
        dot = b.dsg.export_dot(return_dot=True)
        sdot = dot.to_string()
        dlab = {}
        for m in re.finditer(r'^(\d+) \[label=(?:<<B>(.*?)</B>>|"(.*?)"|<(.*?)>)', sdot, flags=re.M):
            dlab[m.group(1)] = m.group(2) or m.group(3) or m.group(4)
        dot_pairs = set()
        for m in re.finditer(r'^(\d+) -> (\d+)', sdot, flags=re.M):
            dot_pairs.add((dlab.get(m.group(1)), dlab.get(m.group(2))))
        titles = {n: n.get_export_title() for n in gr.nodes}
        rec3['dot_missing_nodes'] = len([1 for n in gr.nodes if titles[n] not in dlab.values()])
        rec3['dot_missing_edges'] = len([1 for u, v in gr.edges() if (titles[u], titles[v]) not in dot_pairs
                                          and (titles[v], titles[u]) not in dot_pairs])
    except Exception as ex:
        rec3['err'] = type(ex).__name__ + ':' + str(ex)[:80]
    ev.append(rec3)
    return {'tid': tid, 'g': g, 'ev': ev}
