"""Bounded-exhaustive family for choice constraints (C13): constraint type x 2-3 member choices x 2-4 options x
placement {all permanent; one member nested under an option of another member; a member nested under an option of a
third choice (first-declared or later member); members under different options of a third choice (mutually exclusive)}."""
import itertools
from harness.gd import empty, node, well_formed
from harness.gen_graph import features

TYPES = ('linked', 'perm', 'unord', 'unordnr')
PLACEMENTS = ('permanent', 'nested_in_member', 'first_under_third', 'later_under_third', 'exclusive',
              'permanent_and_independent', 'permanent_and_conditional')
# the last two: all members permanent, plus an unrelated choice declared after them (permanent; resp. a choice nested
# under an option of another unrelated choice) - constraints must not disturb, or be disturbed by, unrelated choices


def make(ctype, n_members, n_opts, placement):
    """Build one description, or None when the combination does not exist."""
    g = empty(1)
    n = [1]

    def new():
        n[0] += 1
        g['nodes'].append(node())
        return n[0]

    origins = []
    third = None
    if placement in ('first_under_third', 'later_under_third', 'exclusive'):
        # third choice Z on the start node with two options
        z1, z2 = new(), new()
        third = {'origin': 1, 'opts': [z1, z2]}
    members = []
    for m in range(n_members):
        if placement in ('permanent', 'permanent_and_independent', 'permanent_and_conditional'):
            origin = new()
            g['der'].append([1, origin])
        elif placement == 'nested_in_member':
            if m == 0:
                origin = new()
                g['der'].append([1, origin])
            elif m == 1:
                origin = members[0]['opts'][0]          # under the first option of the first member
            else:
                origin = new()
                g['der'].append([1, origin])
        elif placement == 'first_under_third':
            if m == 0:
                origin = third['opts'][0]
            else:
                origin = new()
                g['der'].append([1, origin])
        elif placement == 'later_under_third':
            if m == n_members-1:
                origin = third['opts'][0]
            else:
                origin = new()
                g['der'].append([1, origin])
        else:   # exclusive: first two members under different options of Z, others permanent
            if m < 2:
                origin = third['opts'][m]
            else:
                origin = new()
                g['der'].append([1, origin])
        opts = [new() for _ in range(n_opts)]
        members.append({'origin': origin, 'opts': opts})
    # declaration order = member order; the third choice is declared LAST so that member ids are 1..n_members
    extra = []
    if placement == 'permanent_and_independent':
        o = new()
        g['der'].append([1, o])
        extra = [{'origin': o, 'opts': [new(), new()]}]
    elif placement == 'permanent_and_conditional':
        z1, z2 = new(), new()
        extra = [{'origin': 1, 'opts': [z1, z2]}, {'origin': z1, 'opts': [new(), new()]}]
    g['ch'] = members + ([third] if third else []) + extra
    g['n'] = n[0]
    g['cons'] = [{'type': ctype, 'm': list(range(1, n_members+1)), 'dv': []}]
    g['der'].sort()
    g['feat'] = ['cons_'+ctype, 'place_'+placement]
    if well_formed(g):
        return None
    return g


def family(quick=True):
    out = []
    for ctype in TYPES:
        for nm in (2, 3):
            for no in (2, 3, 4):
                if quick and no == 4 and nm != 3:
                    continue       # quick: four options only with three members (more options than members)
                for pl in PLACEMENTS:
                    if nm == 3 and no == 4 and pl not in ('permanent', 'later_under_third'):
                        continue
                    # documented: permutations / non-replacing combinations need at least as many options as choices,
                    # otherwise the DSG is infeasible by definition (docs/theory.md) -- not part of the family
                    if ctype in ('perm', 'unordnr') and no < nm:
                        continue
                    g = make(ctype, nm, no, pl)
                    if g is not None:
                        out.append(g)
    return out


def linked_dv_graphs():
    """Linked design-variable nodes: discrete pairs (same option count) and continuous pairs (different bounds)."""
    out = []
    for kind in ('disc', 'cont'):
        for cond in (False, True):
            g = empty(3)
            g['der'] = [[1, 2]]
            g['ch'] = [{'origin': 1, 'opts': [3]}] if False else []
            if cond:
                g['n'] = 5
                g['nodes'] += [node(), node()]
                g['ch'] = [{'origin': 1, 'opts': [4, 5]}]
                parent2 = 4
            else:
                parent2 = 2
            a = g['n']+1
            b = g['n']+2
            g['n'] += 2
            if kind == 'disc':
                g['nodes'] += [node('dv', disc=True, k=3), node('dv', disc=True, k=3)]
            else:
                g['nodes'] += [node('dv', disc=False, lo=0, hi=1024), node('dv', disc=False, lo=512, hi=2048)]
            g['der'] += [[2, a], [parent2, b]]
            g['der'].sort()
            g['cons'] = [{'type': 'linked', 'm': [], 'dv': [a, b]}]
            g['feat'] = ['linked_dv_'+kind, 'cond' if cond else 'perm']
            out.append(g)
    return out
