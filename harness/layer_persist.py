"""Persistence layer (C08): DSGResolve.tla model checking + generated derive sequences replayed over live objects."""
import collections
import os
import shutil
from harness import drive_persist, gen_cc, gen_proc, gen_graph, tlc
from harness.gd import empty, node
from harness.runner import first_per_clause, pmap, CACHE


def two_choice_graph():
    g = empty(7)
    g['ch'] = [{'origin': 1, 'opts': [2, 3]}, {'origin': 1, 'opts': [4, 5]}]
    g['der'] = [[2, 6], [4, 7]]
    g['nodes'][5] = node('dv', disc=True, k=3)
    g['nodes'][6] = node('dv', disc=False, lo=0, hi=1024)
    g['feat'] = ['persist_two_choices_dv']
    return g


def three_choice_graph():
    """Three two-option choices on permanent nodes: a permutation / non-replacing constraint over them is unsatisfiable
    and resolves option-less choices on the constrained copy."""
    g = empty(10)
    g['der'] = [[1, 2], [1, 3], [1, 4]]
    g['ch'] = [{'origin': 2, 'opts': [5, 6]}, {'origin': 3, 'opts': [7, 8]}, {'origin': 4, 'opts': [9, 10]}]
    g['feat'] = ['persist_three_choices']
    return g


def conn_next_to_selection_graph():
    """A connection choice with permanent connectors next to an open selection choice (both are next choices)."""
    g = empty(7)
    g['der'] = [[1, 4], [1, 5], [1, 6], [1, 7]]
    g['ch'] = [{'origin': 1, 'opts': [2, 3]}]
    g['nodes'][3] = node('conn', dl=[1])
    g['nodes'][4] = node('conn', dl=[0, 1])
    g['nodes'][5] = node('conn', dmin=0, dmax=-1)
    g['nodes'][6] = node('conn', dmin=0, dmax=-1)
    g['cc'] = [{'src': [4, 5], 'tgt': [6, 7], 'excl': []}]
    g['feat'] = ['persist_conn_next_to_selection']
    return g


def corpus(ctx):
    rng = ctx.rng('persist')
    gs = [gen_cc.theory_conn_example(), two_choice_graph(), three_choice_graph(), conn_next_to_selection_graph()]
    n = 4 if ctx.quick else 30
    while len(gs) < 4 + n:
        r = rng.random()
        if r < 0.5:
            g = gen_cc.random_cc_graph(rng, nmin=3, nmax=6, max_s=2, max_t=2, p_group=0.7)
        elif r < 0.8:
            g = gen_proc.random_proc_graph(rng, nmin=4, nmax=7, max_space=12, max_ch=3)
        else:
            g = gen_graph.random_graph(rng, nmin=4, nmax=8, max_space=12, max_ch=3)
        gs.append(g)
    return gs


def prepare_one(item):
    gi, g, depth, seed = item
    wd = os.path.join(CACHE, 'persist-%d-%d-%d' % (os.getpid(), gi, seed))
    try:
        res = drive_persist.generate(g, depth, wd)
    finally:
        shutil.rmtree(wd, ignore_errors=True)
    res.update(gi=gi, g=g)
    return res


def replay_one(item):
    tid, g, hist = item
    try:
        return drive_persist.replay(g, hist, tid=tid)
    except Exception:
        import traceback
        return {'tid': tid, 'g': g, 'crash': traceback.format_exc(limit=8)}


def run(ctx):
    gs = corpus(ctx)
    depth = 3 if ctx.quick else 4
    cap = 320 if ctx.quick else 2500
    preps = pmap(prepare_one, [(i, g, depth, ctx.seed) for i, g in enumerate(gs)], seed=ctx.seed, chunksize=1)
    rng = ctx.rng('persist-sample')
    items, mc = [], []
    for pr in preps:
        hs = pr['hists']
        mc.append({'gi': pr['gi'], 'value_semantics': pr['value_semantics'], 'shared_node_attributes': pr['shared_node_attributes'],
                   'histories': len(hs)})
        if len(hs) > cap:
            # stratified: first one history per distinct sequence of operation names (with the variant of ApplyConn and
            # Decode), then a random fill - a uniform sample of a state cover hardly ever contains a given pattern
            shapes = {}
            for h in hs[1:]:
                key = tuple((o['op'], o['k'] if o['op'] in ('ApplyConn', 'Decode') else 0) for o in h)
                shapes.setdefault(key, []).append(h)
            picked = [rng.choice(v) for _, v in sorted(shapes.items())]
            if len(picked) > cap - 1:
                picked = rng.sample(picked, cap - 1)
            rest = [h for h in hs[1:] if h not in picked]
            hs = [hs[0]] + picked + rng.sample(rest, max(0, min(len(rest), cap - 1 - len(picked))))
        for h in hs:
            items.append((len(items), pr['g'], h))
    traces = pmap(replay_one, items, seed=ctx.seed)
    crashed = [t for t in traces if 'crash' in t]
    if crashed:
        raise tlc.MachineryError('persistence replayer crashed:\n' + crashed[0]['crash'])
    mon = tlc.run_monitor('Mon_Persist', traces, cfg='Mon_Persist.cfg', shards=16, timeout=1800)
    out = {'n_traces': len(traces), 'n_graphs': len(gs), 'states': mon['states'], 'transitions': mon['transitions'], 'mc': mc,
           'mc_states': sum(m['value_semantics']['states'] + m['shared_node_attributes']['states'] for m in mc),
           'mc_ok': all(not m['value_semantics']['violated'] for m in mc),
           'fails': [], 'n_events': sum(len(t['ev']) for t in traces), 'nontrivial': sum(1 for t in traces if len(t['hist']) >= 2),
           'ops': collections.Counter(), 'clause_counts': collections.Counter(), 'samples': []}
    for t in traces:
        for e in t['ev']:
            out['ops'][e['op'] + ('/skipped' if e['skipped'] else '')] += 1
        v = mon['verdicts'][t['tid']]
        if v[2]:
            keep_it = False
            for c in {f[0] for f in v[2]}:
                out['clause_counts'][c] += 1
                keep_it = keep_it or out['clause_counts'][c] <= 40        # up to 40 failing traces are kept per clause
            if keep_it:
                out['fails'].append({'tid': t['tid'], 'fails': first_per_clause(v[2]), 'g': t['g'], 'hist': t['hist']})
    for t in traces[3:5]:
        out['samples'].append({'history': t['hist'], 'objects_after_each_step': [len(e['obs']) for e in t['ev']],
                               'last_observation_of_object_1': {k: t['ev'][-1]['obs'][0][k] for k in ('nodes', 'feasible', 'final', 'next', 'degs', 'dvv')}})
    out['ops'] = dict(out['ops'])
    out['clause_counts'] = dict(out['clause_counts'])
    return out


def replay(payload):
    t = drive_persist.replay(payload['g'], payload['hist'], tid=0)
    mon = tlc.run_monitor('Mon_Persist', [t], cfg='Mon_Persist.cfg', shards=1)
    return mon['verdicts'][0][2]
