"""History machines for the processor (C05, C15): TLC generates operation sequences from ProcessorImpl.tla over a
problem extracted from a real processor; this module replays them into the real GraphProcessor, with a freshly built
twin processor (same fixed values) answering the same question after every observing step, and records everything
for the Mon_Hist monitor."""
import itertools
import json
import os
import pickle
import subprocess

import numpy as np

from harness.build import build
from harness.drive_proc import dv_obs, inst_obs, xq, xreal, NO_INST
from harness import tlc

NOOBS = {'err': '', 'rx': [], 'ract': [], 'inst': NO_INST, 'hasinst': False, 'same_object': False, 'foreign': False}


def _enc(name):
    from adsg_core.optimization.hierarchy import SelChoiceEncoderType
    return {'complete': SelChoiceEncoderType.COMPLETE, 'fast': SelChoiceEncoderType.FAST}[name]


def new_processor(g, enc):
    from adsg_core.optimization.graph_processor import GraphProcessor
    b = build(g)
    return b, GraphProcessor(b.dsg, encoder_type=_enc(enc))


def problem_of(g, max_x=24):
    """The abstract problem of a description: variables, option counts, valid rows (-1 = inactive), vectors."""
    b, p = new_processor(g, 'complete')
    dvs = dv_obs(b, p)
    if not dvs or not all(d['disc'] for d in dvs):
        return None
    nopts = [d['n'] for d in dvs]
    size = 1
    for n in nopts:
        size *= n
    if size > max_x or size < 2:
        return None
    res = p.get_all_discrete_x()
    if res is None:
        return None
    X, A = res
    rows = [[int(X[i][j]) if A[i][j] else -1 for j in range(X.shape[1])] for i in range(X.shape[0])]
    if len(rows) < 2:
        return None
    xs = [list(x) for x in itertools.product(*[range(n) for n in nopts])]
    return {'nv': len(dvs), 'nopts': nopts, 'rows': rows, 'xs': xs,
            'fixable': [i+1 for i, d in enumerate(dvs) if d['kind'] in ('sel', 'dv')],
            'kinds': [d['kind'] for d in dvs]}


def generate_histories(problem, depth, workdir, timeout=600):
    """TLC (ProcessorImpl, generation configuration) -> one shortest operation sequence per distinct abstract state."""
    os.makedirs(workdir, exist_ok=True)
    pf = os.path.join(workdir, 'problem.json')
    with open(pf, 'w') as fh:
        json.dump(problem, fh)
    cfg = os.path.join(workdir, 'gen.cfg')
    with open(cfg, 'w') as fh:
        fh.write('SPECIFICATION Spec\nCONSTANTS MaskAliased = TRUE  CacheHandsOutSame = TRUE  MaxDepth = %d\n'
                 'VIEW CoreView\nINVARIANT EmitHist\nCONSTRAINT Bound\nCHECK_DEADLOCK FALSE\n' % depth)
    out, wall, rc = tlc.run_tlc('ProcessorImpl', cfg=cfg, env={'PROBLEM_FILE': pf}, workers=1, timeout=timeout,
                                workdir=os.path.join(workdir, 'tlc'))
    if tlc.tlc_failed(out, rc):
        raise tlc.MachineryError('TLC failed generating histories:\n' + out[-2000:])
    seen = {}
    for v in tlc.extract_printed(out, 'HIST'):
        view, hist = v[1], v[2]
        key = json.dumps(view, sort_keys=True)
        if key not in seen:
            seen[key] = hist
    states, trans = tlc.tlc_stats(out)
    return list(seen.values()), states, trans


def model_check(problem, workdir, depth=6):
    """The three exhaustive configurations of ProcessorImpl on this problem: contract holds without the two flaws,
    and each flaw violates its invariant."""
    os.makedirs(workdir, exist_ok=True)
    pf = os.path.join(workdir, 'problem.json')
    with open(pf, 'w') as fh:
        json.dump(problem, fh)
    res = {}
    for name, alias, share, invs in (('ok', 'FALSE', 'FALSE', ['Pure', 'Independent', 'FixExact']),
                                      ('alias', 'TRUE', 'FALSE', ['Pure']), ('share', 'FALSE', 'TRUE', ['Independent'])):
        cfg = os.path.join(workdir, name+'.cfg')
        with open(cfg, 'w') as fh:
            fh.write('SPECIFICATION Spec\nCONSTANTS MaskAliased = %s  CacheHandsOutSame = %s  MaxDepth = %d\n' % (alias, share, depth))
            for inv in invs:
                fh.write('INVARIANT %s\n' % inv)
            fh.write('VIEW CoreView\nCONSTRAINT Bound\nCHECK_DEADLOCK FALSE\n')
        out, wall, rc = tlc.run_tlc('ProcessorImpl', cfg=cfg, env={'PROBLEM_FILE': pf}, workers=4, timeout=600,
                                    workdir=os.path.join(workdir, 'tlc_'+name))
        violated = 'is violated' in out
        if not violated and tlc.tlc_failed(out, rc):
            raise tlc.MachineryError('TLC failed on ProcessorImpl/%s:\n%s' % (name, out[-2000:]))
        st, tr = tlc.tlc_stats(out)
        res[name] = {'violated': violated, 'states': st, 'transitions': tr}
    return res


# ---- replay ----------------------------------------------------------------------------------------------------

class Replayer:
    def __init__(self, g, enc, problem):
        from adsg_core.graph.adsg_nodes import MetricNode
        self.g, self.enc, self.problem = g, enc, problem
        self.b, self.p = new_processor(g, enc)
        self.all_dvs = dv_obs(self.b, self.p)
        self.all_objs = list(self.p.all_des_vars)
        self.fixed = {}                     # 1-based index in all variables -> value (what the HARNESS asked for)
        self.handed = []                    # instances handed out (kept alive)
        self.marker = MetricNode('verif_marker')
        self.ev = []

    def free_idx(self, fixed=None):
        fixed = self.fixed if fixed is None else fixed
        return [i for i in range(len(self.all_dvs)) if (i+1) not in fixed]

    def twin(self):
        b, p = new_processor(self.g, self.enc)
        allv = list(p.all_des_vars)
        for i, val in sorted(self.fixed.items()):
            p.fix_des_var(allv[i-1], val)
        return b, p

    def obs_decode(self, b, p, xfull, create):
        idx = self.free_idx()
        dvs = [self.all_dvs[i] for i in idx]
        x = [xfull[i] for i in idx]
        out = {'err': '', 'rx': [], 'ract': [], 'inst': NO_INST, 'hasinst': False, 'same_object': False, 'foreign': False}
        try:
            inst, rx, ract = p.get_graph(xreal(dvs, x), create=create)
        except Exception as e:
            out['err'] = type(e).__name__
            return out, None
        out['rx'] = xq(dvs, rx)
        out['ract'] = [bool(a) for a in ract]
        if inst is not None:
            out['inst'] = inst_obs(b, inst)
            out['hasinst'] = True
            out['foreign'] = bool(inst.metric_values) or getattr(inst, '_verif_marked', False)
        return out, inst

    def step(self, op):
        name = op['op']
        e = {'e': name, 'x': op.get('x', []), 'create': bool(op.get('create', False)), 'v': op.get('v', 0),
             'val': op.get('val', 0), 'err': '', 'long': NOOBS, 'fresh': NOOBS, 'free': [], 'rows': [], 'frows': [],
             'nvalid': -1, 'fnvalid': -1, 'ndecl': -1, 'fndecl': -1}
        if name == 'Decode':
            lo, inst = self.obs_decode(self.b, self.p, op['x'], op['create'])
            if inst is not None:
                lo['same_object'] = any(inst is h for h in self.handed)
                self.handed.append(inst)
            tb, tp = self.twin()
            fr, _ = self.obs_decode(tb, tp, op['x'], op['create'])
            e['long'], e['fresh'] = lo, fr
        elif name in ('Enumerate', 'Stats'):
            def enum(p):
                r = {'rows': [], 'nvalid': -1, 'ndecl': -1, 'err': ''}
                try:
                    res = p.get_all_discrete_x()
                    if res is not None:
                        X, A = res
                        r['rows'] = [[int(X[i][j]) if A[i][j] else -1 for j in range(X.shape[1])] for i in range(X.shape[0])]
                        r['avail'] = True
                    r['nvalid'] = int(p.get_n_valid_designs(with_fixed=True))
                    r['ndecl'] = int(p.get_n_design_space(with_fixed=True))
                except Exception as ex:
                    r['err'] = type(ex).__name__
                return r
            a = enum(self.p)
            _, tp = self.twin()
            f = enum(tp)
            e.update(rows=a['rows'], nvalid=a['nvalid'], ndecl=a['ndecl'], err=a['err'], frows=f['rows'],
                     fnvalid=f['nvalid'], fndecl=f['ndecl'])
        elif name == 'Fix':
            try:
                self.p.fix_des_var(self.all_objs[op['v']-1], op['val'])
                self.fixed[op['v']] = op['val']
            except Exception as ex:
                e['err'] = type(ex).__name__
        elif name == 'Free':
            try:
                self.p.free_des_var(self.all_objs[op['v']-1])
                self.fixed.pop(op['v'], None)
            except Exception as ex:
                e['err'] = type(ex).__name__
        elif name == 'Mutate':
            if self.handed:
                inst = self.handed[-1]
                inst.set_metric_value(self.marker, 42.0)
                inst._verif_marked = True
        elif name == 'Pickle':
            try:
                self.p = pickle.loads(pickle.dumps(self.p))
                self.all_objs = list(self.p.all_des_vars)
            except Exception as ex:
                e['err'] = type(ex).__name__
        e['free'] = [i+1 for i in self.free_idx()]
        try:
            e['listed'] = [d['name'] for d in dv_obs(self.b, self.p)]
        except Exception:
            e['listed'] = []
        e['allnames'] = [d['name'] for d in self.all_dvs]
        self.ev.append(e)

    def probe(self):
        """Observation block after a history: every vector with and without materialising, the enumeration."""
        for x in self.problem['xs']:
            self.step({'op': 'Decode', 'x': x, 'create': True})
            self.step({'op': 'Decode', 'x': x, 'create': False})
        if self.enc == 'complete':
            self.step({'op': 'Enumerate'})

    def bad_fixes(self):
        """Out-of-range values and connection-choice variables must be rejected."""
        for i, d in enumerate(self.all_dvs):
            if (i+1) in self.fixed:
                continue
            cases = []
            if d['kind'] == 'conn':
                cases = [0]
            elif d['disc']:
                cases = [d['n'], -1]
            for val in cases:
                e = {'e': 'BadFix', 'x': [], 'create': False, 'v': i+1, 'val': val, 'err': '', 'long': NOOBS, 'fresh': NOOBS,
                     'free': [], 'rows': [], 'frows': [], 'nvalid': -1, 'fnvalid': -1, 'ndecl': -1, 'fndecl': -1,
                     'kind': d['kind'], 'listed': [], 'allnames': []}
                try:
                    self.p.fix_des_var(self.all_objs[i], val)
                    self.p.free_des_var(self.all_objs[i])      # undo if it was (wrongly) accepted
                except Exception as ex:
                    e['err'] = type(ex).__name__
                e['free'] = [j+1 for j in self.free_idx()]
                self.ev.append(e)


def replay_history(g, enc, problem, hist, tid=0, bad=False):
    r = Replayer(g, enc, problem)
    if [d['n'] for d in r.all_dvs] != problem['nopts']:
        # the fast encoder declares other variables (forced choices are variables there): the histories were generated
        # for the complete encoder's problem and do not apply
        return {'tid': tid, 'skip': 'different design variables for this encoder'}
    # cached observers are asked BEFORE the history and after every fix / free as well, not only at the end: a stale
    # answer needs an earlier answer to be stale from
    if enc == 'complete':
        r.step({'op': 'Enumerate'})
    for op in hist:
        r.step(op)
        if op['op'] in ('Fix', 'Free') and enc == 'complete':
            r.step({'op': 'Enumerate'})
    r.probe()
    if bad:
        r.bad_fixes()
    return {'tid': tid, 'g': g, 'enc': enc, 'problem': problem, 'hist': hist, 'ev': r.ev}
