import argparse
import json
import os
import sys
import time
import traceback

from harness import runner, tlc


def setup():
    """Parse every TLA+ module with SANY; create scratch directories."""
    import subprocess
    os.makedirs(runner.CACHE, exist_ok=True)
    spec = os.path.join(runner.VERIF, 'spec')
    bad = 0
    for f in sorted(os.listdir(spec)):
        if f.endswith('.tla'):
            p = subprocess.run(['tla-sany', f], cwd=spec, stdout=subprocess.PIPE, stderr=subprocess.STDOUT, text=True)
            ok = p.returncode == 0 and 'rror' not in p.stdout.replace('Semantic errors:', '')
            print('SANY %-28s %s' % (f, 'ok' if ok else 'FAILED'))
            if not ok:
                print(p.stdout[-2000:])
                bad += 1
    return 2 if bad else 0


def private_cache():
    """The library's on-disk caches (matrices, selected encoders) are keyed by settings only: a run against another
    tree (a seeded change, an older commit) must never leave entries that a later run reads. Every run of ./check gets
    its own cache directory, removed at exit."""
    import atexit
    import shutil
    import tempfile
    os.makedirs(runner.CACHE, exist_ok=True)
    d = tempfile.mkdtemp(prefix='xdg-', dir=runner.CACHE)
    os.environ['XDG_CACHE_HOME'] = d
    atexit.register(shutil.rmtree, d, True)


def main():
    private_cache()
    ap = argparse.ArgumentParser()
    ap.add_argument('pid')
    ap.add_argument('--tier', default=os.environ.get('VERIF_TIER') or 'quick')
    ap.add_argument('--replay')
    a = ap.parse_args()
    if a.pid == 'setup':
        sys.exit(setup())
    if a.pid == 'selftest':
        from harness import selftest
        sys.exit(selftest.main())
    from harness.checks import CHECKS, replay_payload
    try:
        seed = int(os.environ.get('VERIF_SEED') or 0)
    except ValueError:
        seed = 0
    tier = a.tier if a.tier in ('quick', 'thorough') else 'quick'
    pid = a.pid
    if pid not in CHECKS:
        print('unknown property', pid)
        sys.exit(2)
    prefix = pid + '.'
    try:
        if a.replay:
            with open(a.replay) as fh:
                payload = json.load(fh)
            fails = [c for c in replay_payload(payload['payload']) if c[0].startswith(prefix)]
            if fails:
                print('VIOLATION property=%s replay=%s' % (pid, a.replay))
                print('clauses:', fails)
                sys.exit(1)
            print('replay passes on the current tree')
            sys.exit(0)
        ctx = runner.Ctx(pid, tier, seed)
        res = CHECKS[pid](ctx)
        violations = list(res['violations'])
        known_lines = []
        # ---- committed findings: replay every witness listed for this property ----
        suppress = []
        for f in runner.load_findings():
            if f['property'] != pid or 'witness' not in f or f['witness'].get('kind') not in ('gdesc', 'payload'):
                continue
            payload = f['witness'].get('payload') or {'layer': f['layer'], 'g': f['witness'].get('g')}
            if payload.get('g') is not None:
                from harness.gd import normalise
                payload['g'] = normalise(payload['g'])
            fails = [c for c in replay_payload(payload) if c[0].startswith(prefix)]
            if f.get('clauses'):
                fails = [c for c in fails if c[0] in f['clauses']]
            if f['status'] == 'fixed':
                if fails:
                    violations.append({'clause': fails[0][0], 'where': 'fixed finding regressed: ' + f['text'],
                                       'payload': payload})
            elif fails:
                known_lines.append('KNOWN-FINDING: property=%s %s' % (pid, f['text']))
                suppress.append(f)
        # ---- attribution of fresh violations to still-failing known findings (same clause + trigger) ----
        from harness import triggers
        fresh = []
        attributed = 0
        for v in violations:
            hit = False
            for f in suppress:
                if v['clause'] in f.get('clauses', []) and triggers.holds_args(f.get('trigger'), v['payload'], f.get('trigger_args') or {}):
                    hit = True
                    break
            if hit:
                attributed += 1
            else:
                fresh.append(v)
        for line in known_lines:
            print(line)
        out_lines = []
        for v in fresh[:20]:
            path = runner.write_replay(pid, {'property': pid, 'clause': v['clause'], 'where': v.get('where'),
                                             'all_clauses': v.get('all_clauses'), 'payload': v['payload']})
            out_lines.append('VIOLATION property=%s replay=%s' % (pid, path))
            print(out_lines[-1], ' clause=%s %s' % (v['clause'], v.get('where', '')))
        cov = res['coverage']
        cov['known_findings_reported'] = len(known_lines)
        cov['violations_attributed_to_known_findings'] = attributed
        ev = runner.write_evidence(ctx, res['level'], cov, res['assumptions'], len(fresh))
        print('%s %s seed=%d: %d violation(s), %d known finding(s); wall %.1fs; evidence/%s.json'
              % (pid, tier, seed, len(fresh), len(known_lines), ev['wall_s'], pid))
        sys.exit(1 if fresh else 0)
    except tlc.MachineryError as e:
        print('MACHINERY FAILURE (exit 2, neither pass nor violation):', e)
        sys.exit(2)
    except SystemExit:
        raise
    except Exception:
        traceback.print_exc()
        print('MACHINERY FAILURE (exit 2)')
        sys.exit(2)


if __name__ == '__main__':
    main()
