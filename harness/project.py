"""Real object -> abstract observation. Dumb extraction only: names to ids, edges by type, flags.
Nothing in here computes a closure, a valid connection set or an admissible vector."""
from adsg_core.graph.adsg_nodes import SelectionChoiceNode, ConnectionChoiceNode, ConnectorNode, \
    ConnectorDegreeGroupingNode, DesignVariableNode, MetricNode
from adsg_core.graph.graph_edges import EdgeType, get_edge_type
from adsg_core.graph.traversal import traverse_until_choice_nodes
from harness.gd import UNIT


def q(v):
    """float -> integer in 1/1024 units (exact for the dyadic values the generators use), None -> None."""
    if v is None:
        return None
    r = v*UNIT
    ri = int(round(r))
    return ri


def obs_graph(b, d, full=True):
    """Observation of one DSG object d built from b (Built)."""
    inv, chinv, ccinv = b.inv, b.chinv, b.ccinv
    gr = d.graph
    nodes = sorted(inv[n] for n in gr.nodes if n in inv)
    sel_left = sorted(chinv[n] for n in gr.nodes if n in chinv)
    cc_left = sorted(ccinv[n] for n in gr.nodes if n in ccinv)
    der, con, exc, inc = [], [], [], []
    chedge = []   # [choice id, option id] edges still in the graph; origin edges [origin, choice id]
    marker = 0
    for e in gr.edges(keys=True, data=True):
        s, t, _, data = e
        et = data.get('type')
        if s in inv and t in inv:
            pair = [inv[s], inv[t]]
            if et == EdgeType.DERIVES:
                der.append(pair)
            elif et == EdgeType.CONNECTS:
                con.append(pair)
            elif et == EdgeType.EXCLUDES:
                exc.append(pair)
            elif et == EdgeType.INCOMPATIBILITY:
                if 'choice_node' in data:
                    marker += 1
                else:
                    inc.append(pair)
        elif s in chinv and t in inv:
            chedge.append([chinv[s], inv[t]])
    feasible = bool(d.feasible)
    final = bool(d.final)
    o = {'nodes': nodes, 'sel_left': sel_left, 'cc_left': cc_left, 'feasible': feasible, 'final': final,
         'der': sorted(der), 'con': sorted(con), 'marker': marker}
    if full:
        o['exc'] = sorted(exc)
        o['inc'] = sorted(inc)
    # confirmed nodes and next choices: only meaningful on feasible objects (harness lesson)
    conf, nxt, offered, ghost = [], [], [], []
    if feasible:
        conf = sorted(inv[n] for n in d.get_confirmed_graph().graph.nodes if n in inv)
        for c in d.get_ordered_next_choice_nodes():
            if c in chinv:
                if c not in gr.nodes:
                    ghost.append(chinv[c])   # named as next choice although no longer in the graph
                    continue
                nxt.append(chinv[c])
                offered.append({'c': chinv[c], 'opts': [inv[o_] for o_ in d.get_option_nodes(c)]})
    o['conf'] = conf
    o['next'] = nxt
    o['offered'] = offered
    o['ghost'] = ghost
    return o


def auto_taken(b, d):
    """The automatically taken (forced) choices recorded by the library for the last derive call."""
    out = []
    for c, o in d.get_taken_single_selection_choices():
        if c in b.chinv:
            out.append([b.chinv[c], b.inv[o] if o is not None else 0])
    return out
