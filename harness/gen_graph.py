"""Generators for selection-level descriptions (plain nodes, derivations, selection choices, incompatibilities,
choice constraints).  All nodes are potentially reachable by construction (grown from the start node)."""
import itertools
import random
from harness.gd import empty, well_formed, closure_potential


def _skeletons(n):
    """Every way to give each node 2..n one 'reason to exist': derived from an earlier node, a further option of an
    existing choice, or the first option of a new choice on an earlier node."""
    def rec(t, der, ch):
        if t > n:
            yield der, ch
            return
        for s in range(1, t):
            yield from rec(t+1, der+[[s, t]], ch)
        for i in range(len(ch)):
            if len(ch[i]['opts']) < 3:
                ch2 = [dict(c, opts=list(c['opts'])) for c in ch]
                ch2[i]['opts'].append(t)
                yield from rec(t+1, der, ch2)
        if len(ch) < 3:
            for s in range(1, t):
                yield from rec(t+1, der, ch+[{'origin': s, 'opts': [t]}])
    yield from rec(2, [], [])


def exhaustive_family(n, max_inc=1, extras=True):
    """Bounded-exhaustive family over n nodes (1 start node): every skeleton x at most one extra derivation edge
    (forward, backward = cycle) or one shared option x at most max_inc incompatibility pairs."""
    seen = set()
    for der, ch in _skeletons(n):
        variants = [(der, ch)]
        if extras:
            for s in range(1, n+1):
                for t in range(2, n+1):
                    if s != t and [s, t] not in der:
                        variants.append((der+[[s, t]], ch))
            for i, c in enumerate(ch):
                for o in range(2, n+1):
                    if o != c['origin'] and o not in c['opts'] and len(c['opts']) < 3:
                        ch2 = [dict(cc, opts=list(cc['opts'])) for cc in ch]
                        ch2[i]['opts'].append(o)
                        variants.append((der, ch2))
        pairs = list(itertools.combinations(range(1, n+1), 2))
        incsets = [[]]
        for k in range(1, max_inc+1):
            incsets += [list(map(list, c)) for c in itertools.combinations(pairs, k)]
        for d2, c2 in variants:
            for inc in incsets:
                g = empty(n)
                g['der'] = sorted(d2)
                g['ch'] = [dict(c, opts=list(c['opts'])) for c in c2]
                g['inc'] = inc
                if well_formed(g):
                    continue
                key = repr((g['der'], g['ch'], g['inc']))
                if key in seen:
                    continue
                seen.add(key)
                g['feat'] = features(g)
                yield g


def features(g):
    f = []
    if g['inc']:
        f.append('inc')
    optcount = {}
    for c in g['ch']:
        for o in c['opts']:
            optcount[o] = optcount.get(o, 0)+1
    if any(v > 1 for v in optcount.values()):
        f.append('shared_option')
    origins = [c['origin'] for c in g['ch']]
    if len(set(origins)) < len(origins):
        f.append('several_choices_one_node')
    if any(s > t for s, t in g['der']):
        f.append('back_edge')
    if len(g['start']) > 1:
        f.append('two_start')
    if g['cons']:
        f.append('cons_'+g['cons'][0]['type'])
    if any(len(c['opts']) == 1 for c in g['ch']):
        f.append('single_option_choice')
    return f


def random_graph(rng, nmin=5, nmax=11, max_ch=4, p_cycle=0.2, p_shared=0.25, n_inc=(0, 3), two_start=0.15,
                 max_space=300, p_keep_single=0.3):
    """Random structured description, grown from the start nodes."""
    while True:
        n = rng.randint(nmin, nmax)
        g = empty(n)
        R = [1]
        der = set()
        ch = []
        nstart = 1
        if rng.random() < two_start:
            g['start'] = [1, 2]
            R = [1, 2]
            nstart = 2
        for t in range(nstart+1, n+1):
            m = rng.random()
            if m < 0.4:
                der.add((rng.choice(R), t))
            else:
                cands = [c for c in ch if len(c['opts']) < 4]
                if cands and (rng.random() < 0.65 or len(ch) >= max_ch):
                    rng.choice(cands)['opts'].append(t)
                elif len(ch) < max_ch:
                    ch.append({'origin': rng.choice(R), 'opts': [t]})
                else:
                    der.add((rng.choice(R), t))
            R.append(t)
        for _ in range(rng.randint(0, 3)):
            s, t = rng.sample(range(1, n+1), 2)
            if t in g['start']:
                continue
            if s > t and rng.random() > p_cycle:
                s, t = t, s
            der.add((s, t))
        for c in ch:
            if rng.random() < p_shared:
                o = rng.randint(nstart+1, n)
                if o != c['origin'] and o not in c['opts'] and len(c['opts']) < 4 and (c['origin'], o) not in der:
                    c['opts'].append(o)
        # most single-option choices become plain derivation edges (they are forced anyway); some are kept
        kept = []
        for c in ch:
            if len(c['opts']) == 1 and rng.random() > p_keep_single:
                der.add((c['origin'], c['opts'][0]))
            else:
                kept.append(c)
        ch = kept
        # never declare a derivation edge from an originating node straight to one of its own options (the
        # instance edge origin->option would be indistinguishable from it)
        for c in ch:
            for o in c['opts']:
                der.discard((c['origin'], o))
        inc = []
        for _ in range(rng.randint(*n_inc)):
            a, b = rng.sample(range(1, n+1), 2)
            if [a, b] not in inc and [b, a] not in inc:
                inc.append(sorted([a, b]))
        g['der'] = sorted(map(list, der))
        g['ch'] = ch
        g['inc'] = inc
        if well_formed(g):
            continue
        if len(closure_potential(g)) != n:
            continue
        space = 1
        for c in ch:
            space *= len(c['opts'])
        if space > max_space:
            continue
        g['feat'] = features(g)
        return g


def theory_example():
    """The selection-choice figure of docs/theory.md (N1..N13; N0 left out because it is floating)."""
    g = empty(13)
    g['der'] = [[1, 2], [1, 3], [4, 7], [5, 6], [5, 7], [6, 8], [8, 9], [9, 10], [10, 8], [13, 7]]
    # C1 on N3 with options N4,N5,N6,N12,N13 ; C2 on N7 with options N8, N11
    g['ch'] = [{'origin': 3, 'opts': [4, 5, 6, 12, 13]}, {'origin': 7, 'opts': [8, 11]}]
    g['inc'] = [[2, 12], [9, 13]]
    g['feat'] = ['theory_example']
    return g


def incompatibility_chain_family():
    """C1@1 {A, B}, C2@1 {X, W}, X -> K, A-K incompatible, and every subset of the four edges K -> Y1, X -> Y2, B -> Y1,
    B -> Y2 (nodes below the incompatible node and its deriver that a non-selected option may also derive)."""
    import itertools
    out = []
    extra = [[6, 7], [4, 8], [3, 7], [3, 8]]
    for r in range(len(extra)+1):
        for sub in itertools.combinations(extra, r):
            used = {n for e in sub for n in e}
            g = empty(8 if 8 in used else 7 if 7 in used else 6)
            g['ch'] = [{'origin': 1, 'opts': [2, 3]}, {'origin': 1, 'opts': [4, 5]}]
            g['der'] = sorted([[4, 6]] + [list(e) for e in sub if max(e) <= g['n']])
            g['inc'] = [[2, 6]]
            g['feat'] = ['incompatibility_chain']
            if not well_formed(g) and closure_potential(g) == set(range(1, g['n']+1)):
                out.append(g)
    return out


def staged(g):
    """The same description, built through the history initialise - add derivation edges - initialise again."""
    import json
    h = json.loads(json.dumps(g))
    h['feat'] = list(h.get('feat', [])) + ['staged_build']
    return h


def cached_walk_rejoin_example():
    """C1@1 {2,3,4}, 2 -> 6, 3 -> 5 -> 6, 3 -> 7 -> 6, 4 -> 7, C2@6 {8,9}: node 6 is reached through a cached answer and
    again through a second branch of the same walk (the witness of a repaired defect of the confirmed-edge cache)."""
    g = empty(9)
    g['ch'] = [{'origin': 1, 'opts': [2, 3, 4]}, {'origin': 6, 'opts': [8, 9]}]
    g['der'] = sorted([[2, 6], [3, 5], [5, 6], [3, 7], [7, 6], [4, 7]])
    g['feat'] = ['cached_walk_rejoin']
    return g


def cycle_cross_edge_example():
    """c1@1 {A, D, E}; A -> Y, A -> X, Y -> K, X <-> Z, Z -> Y, D -> X, E -> M; c2@K {U, V}: a derivation cycle with an edge
    back to an earlier-walked node, shared by two options."""
    g = empty(11)
    g['ch'] = [{'origin': 1, 'opts': [2, 3, 4]}, {'origin': 7, 'opts': [10, 11]}]
    g['der'] = sorted([[2, 5], [2, 6], [5, 7], [6, 8], [8, 6], [8, 5], [3, 6], [4, 9]])
    g['feat'] = ['cycle_cross_edge']
    return g


def with_floating_roots(g, variant=0):
    """The description plus never-derived, non-start root nodes (docs/theory.md: such nodes and what only they derive are
    not part of the design space): two roots J1, J2 that BOTH derive a node X with a choice below it, and one node
    each of their own.  variant 1: a single root."""
    import json
    h = json.loads(json.dumps(g))
    n = h['n']
    from harness.gd import node
    names = ['J1', 'J2', 'X', 'W', 'P', 'Q', 'Y1', 'Y2']
    ids = {nm: n+i+1 for i, nm in enumerate(names)}
    h['n'] = n + len(names)
    h['nodes'] = h['nodes'] + [node() for _ in names]
    der = [[ids['J1'], ids['X']], [ids['X'], ids['W']], [ids['J1'], ids['Y1']]]
    if variant == 0:
        der += [[ids['J2'], ids['X']], [ids['J2'], ids['Y2']]]
    h['der'] = sorted(h['der'] + der)
    h['ch'] = h['ch'] + [{'origin': ids['W'], 'opts': [ids['P'], ids['Q']]}]
    h['feat'] = list(h.get('feat', [])) + ['floating_roots']
    return h
