"""Processor history layer (C05, C15): ProcessorImpl model checking + TLC-generated histories replayed into the code."""
import collections
import json
import os
import shutil
from harness import drive_hist, gen_graph, gen_proc, gen_cc, gen_cons, tlc
from harness.gd import empty, node
from harness.runner import pmap, CACHE


def base_problem_graph():
    """A{1,2,3}, B under option 1, C permanent (the example of DESIGN.md section 6 #1)."""
    g = empty(8)
    g['ch'] = [{'origin': 1, 'opts': [2, 3, 4]}, {'origin': 2, 'opts': [5, 6]}, {'origin': 1, 'opts': [7, 8]}]
    g['feat'] = ['hist_base']
    return g


def two_connection_choices_graph():
    """Two independent connection choices with two valid sets each (the instance cache for the second one must depend
    on what was decoded for the first)."""
    g = empty(9)
    g['der'] = [[1, 2], [1, 3], [1, 4], [1, 5], [1, 6], [1, 7]]
    g['ch'] = [{'origin': 1, 'opts': [8, 9]}]
    for i, nd in ((2, node('conn', dl=[1])), (3, node('conn', dmin=0, dmax=1)), (4, node('conn', dmin=0, dmax=1)),
                  (5, node('conn', dl=[1])), (6, node('conn', dmin=0, dmax=1)), (7, node('conn', dmin=0, dmax=1))):
        g['nodes'][i-1] = nd
    g['cc'] = [{'src': [2], 'tgt': [3, 4], 'excl': []}, {'src': [5], 'tgt': [6, 7], 'excl': []}]
    g['feat'] = ['hist_two_connection_choices']
    return g


def exclusive_subchoices_graph():
    """A{2,3,4}, B under option 2, C under option 3: B and C are never active together, so fixing A to its third option
    and B and C to a value leaves nothing that has all three active - the restriction must then stay what it is."""
    g = empty(10)
    # (D under the first option of C stays free and shows which designs a restriction really contains)
    g['ch'] = [{'origin': 1, 'opts': [2, 3, 4]}, {'origin': 2, 'opts': [5, 6]}, {'origin': 3, 'opts': [7, 8]},
               {'origin': 7, 'opts': [9, 10]}]
    g['feat'] = ['hist_exclusive_subchoices']
    return g


def incompatible_options_graph():
    """Two permanent choices A{4,5}@2, B{6,7}@3 whose second options exclude each other: fixing one of them to its
    second option makes the other one's second option a vector that has to be corrected WITHOUT touching the fixed one."""
    g = empty(7)
    g['der'] = [[1, 2], [1, 3]]
    g['ch'] = [{'origin': 2, 'opts': [4, 5]}, {'origin': 3, 'opts': [6, 7]}]
    g['inc'] = [[5, 7]]
    g['feat'] = ['hist_incompatible_options']
    return g


def corpus(ctx):
    rng = ctx.rng('hist')
    # (a linked pair leaves the second member without a design variable: variable index /= choice index for the third)
    gs = [base_problem_graph(), two_connection_choices_graph(), gen_cons.make('linked', 2, 2, 'permanent_and_independent'),
          exclusive_subchoices_graph(), incompatible_options_graph()]
    want = 24 if ctx.quick else 120          # candidates; run() keeps the first ones that yield a suitable problem
    tries = 0
    while len(gs) < want and tries < 4000:
        tries += 1
        r = rng.random()
        if r < 0.6:
            g = gen_proc.random_proc_graph(rng, nmin=4, nmax=8, max_space=16, max_ch=3)
        elif r < 0.8:
            g = gen_graph.random_graph(rng, nmin=4, nmax=8, max_space=16, max_ch=3)
        else:
            g = gen_cc.random_cc_graph(rng, nmin=3, nmax=5, max_s=2, max_t=2)
        if any(nd['t'] == 'dv' and not nd['disc'] for nd in g['nodes']):
            continue
        gs.append(g)
    return gs


def prepare_one(item):
    """Per description: abstract problem, model checking of the three configurations, generated histories."""
    gi, g, depth, seed = item
    try:
        prob = drive_hist.problem_of(g)
    except Exception as e:
        return {'gi': gi, 'skip': 'problem extraction failed: ' + type(e).__name__}
    if prob is None:
        return {'gi': gi, 'skip': 'no suitable discrete problem'}
    wd = os.path.join(CACHE, 'hist-%d-%d-%d' % (os.getpid(), gi, seed))
    try:
        mc = drive_hist.model_check(prob, wd, depth=6)
        hs, st, tr = drive_hist.generate_histories(prob, depth, wd)
    finally:
        shutil.rmtree(wd, ignore_errors=True)
    return {'gi': gi, 'g': g, 'problem': prob, 'mc': mc, 'hists': hs, 'gen_states': st, 'gen_transitions': tr}


def replay_one(item):
    tid, g, enc, prob, hist, bad = item
    try:
        return drive_hist.replay_history(g, enc, prob, hist, tid=tid, bad=bad)
    except Exception:
        import traceback
        return {'tid': tid, 'g': g, 'crash': traceback.format_exc(limit=8)}


def run(ctx):
    gs = corpus(ctx)
    depth = 3 if ctx.quick else 4
    cap = 350 if ctx.quick else 4000        # histories replayed per description and encoder
    preps = pmap(prepare_one, [(i, g, depth, ctx.seed) for i, g in enumerate(gs)], seed=ctx.seed, chunksize=1)
    rng = ctx.rng('hist-sample')
    items = []
    mc_summary = []
    keep = 8 if ctx.quick else 40
    for pr in preps:
        if 'skip' in pr:
            continue
        if len(mc_summary) >= keep:
            break
        mc_summary.append({'gi': pr['gi'], 'mc': pr['mc'], 'histories': len(pr['hists']), 'gen_states': pr['gen_states']})
        hs = pr['hists']
        if len(hs) > cap:
            # every history made of Fix / Free operations only is kept (all combinations of fixed variables, C15)
            fixonly = [h for h in hs[1:] if all(o['op'] in ('Fix', 'Free') for o in h)]
            rest = [h for h in hs[1:] if not all(o['op'] in ('Fix', 'Free') for o in h)]
            hs = [hs[0]] + fixonly + rng.sample(rest, max(0, min(len(rest), cap-1-len(fixonly))))
        for enc in ('complete', 'fast'):
            for h in hs:
                items.append((len(items), pr['g'], enc, pr['problem'], h, len(items) % 25 == 0))
    traces = pmap(replay_one, items, seed=ctx.seed)
    crashed = [t for t in traces if 'crash' in t]
    if crashed:
        raise tlc.MachineryError('replayer crashed outside a recorded call:\n' + crashed[0]['crash'])
    traces = [t for t in traces if 'skip' not in t]
    mon = tlc.run_monitor('Mon_Hist', traces, cfg='Mon_Hist.cfg', shards=16, timeout=1800)
    out = {'n_traces': len(traces), 'n_graphs': len(gs), 'problems': len(mc_summary), 'states': mon['states'],
           'transitions': mon['transitions'], 'mc': mc_summary, 'fails': [], 'n_events': sum(len(t['ev']) for t in traces),
           'clause_counts': collections.Counter(), 'samples': [], 'nontrivial': 0,
           'mc_states': sum(sum(v['states'] for v in m['mc'].values()) + m['gen_states'] for m in mc_summary),
           'mc_ok': all((not m['mc']['ok']['violated']) and m['mc']['alias']['violated'] and m['mc']['share']['violated'] for m in mc_summary)}
    for t in traces:
        v = mon['verdicts'][t['tid']]
        if len(t['hist']) >= 2:
            out['nontrivial'] += 1
        if v[2]:
            first = {}
            for c, i in sorted(v[2], key=lambda f: f[1]):
                first.setdefault(c, i)            # one entry per distinct clause (its first event), never truncated
            keep_it = False
            for c in first:
                out['clause_counts'][c] += 1
                if out['clause_counts'][c] <= 40:  # up to 40 failing traces are kept PER CLAUSE
                    keep_it = True
            if keep_it:
                out['fails'].append({'tid': t['tid'], 'fails': [[c, i] for c, i in first.items()], 'g': t['g'], 'enc': t['enc'],
                                     'problem': t['problem'], 'hist': t['hist']})
    for t in traces[1:2] + traces[len(traces)//2:len(traces)//2+1]:
        out['samples'].append({'enc': t['enc'], 'history': t['hist'], 'first_events': [
            {'e': e['e'], 'x': e['x'], 'v': e['v'], 'val': e['val'], 'long_rx': e['long']['rx'], 'fresh_rx': e['fresh']['rx']}
            for e in t['ev'][:5]]})
    out['clause_counts'] = dict(out['clause_counts'])
    return out


def replay(payload):
    t = drive_hist.replay_history(payload['g'], payload['enc'], payload['problem'], payload['hist'], tid=0, bad=True)
    mon = tlc.run_monitor('Mon_Hist', [t], cfg='Mon_Hist.cfg', shards=1)
    return mon['verdicts'][0][2]
