------------------------------ MODULE Processor ------------------------------
(***************************************************************************)
(* The processor layer as an abstract machine over a description g:        *)
(*   state  : fixed (partial map variable -> value), and history variables *)
(*            raw (x -> corrected x), outs (corrected x -> activeness),    *)
(*            insts (corrected x <-> architecture digest)                  *)
(*   actions: New(dvs), Decode(x, create, r), Enumerate(rows), Fix, Free   *)
(* Decode may return ANY r accepted by DecodeClauses = {} -- the property- *)
(* level contract (C01, C03, C05, C07, C14, C16).  Mon_Proc binds the      *)
(* actions to recorded calls of the real GraphProcessor.                   *)
(***************************************************************************)
EXTENDS DSGSem

\* a design-variable record: [kind: sel|conn|dv, c: choice / connection choice / node id, opts: option node ids (sel),
\*                            n: number of options (discrete), disc, lo, hi (1/1024 units), cond: conditionally active]
InRangeVar(dv, v) == IF dv.disc THEN v >= 0 /\ v < dv.n ELSE v >= dv.lo /\ v <= dv.hi
InRange(dvs, x) == Len(x) = Len(dvs) /\ \A i \in DOMAIN dvs : InRangeVar(dvs[i], x[i])
\* canonical value of an inactive variable: 0 / mid-bounds (bounds travel in 1/1024 units, so allow the rounding unit)
IsInactiveValue(dv, v) == IF dv.disc THEN v = 0 ELSE (2*v - (dv.lo + dv.hi)) \in {-1, 0, 1}
Canonical(dvs, x, act) == \A i \in DOMAIN dvs : ~act[i] => IsInactiveValue(dvs[i], x[i])

DvPairs(inst) == SeqSet(inst.dvv)
HasDvValue(inst, n) == \E p \in DvPairs(inst) : p[1] = n
DvValue(inst, n) == (CHOOSE p \in DvPairs(inst) : p[1] = n)[2]

Matches(g, A, inst) == A.nodes = SeqSet(inst.nodes) /\ ArchDerEdges(g, A) = SeqSet(inst.der)
MatchSet(g, adm, inst) == {A \in adm : Matches(g, A, inst)}

\* the node a variable belongs to exists in architecture A
VarNodePresent(g, dv, A) ==
    CASE dv.kind = "sel" -> dv.c \in ChIds(g) /\ A.sel[dv.c] # 0
      [] dv.kind = "dv" -> dv.c \in A.nodes
      [] dv.kind = "conn" -> dv.c \in CcIds(g) /\ ConnActive(g, A, dv.c)
      [] OTHER -> TRUE

\* an ACTIVE variable's value describes the instance
DescribesVar(g, dv, v, A, inst) ==
    CASE dv.kind = "sel" -> dv.c \in ChIds(g) /\ A.sel[dv.c] # 0 /\ (v + 1) \in DOMAIN dv.opts /\ dv.opts[v + 1] = A.sel[dv.c]
      [] dv.kind = "dv" -> HasDvValue(inst, dv.c) /\ DvValue(inst, dv.c) = v
      [] OTHER -> TRUE

DvsWellFormed(g, dvs) ==
    \A i \in DOMAIN dvs :
       CASE dvs[i].kind = "sel" -> dvs[i].c \in ChIds(g) /\ SeqSet(dvs[i].opts) \subseteq Opts(g, dvs[i].c)
                                   /\ Len(dvs[i].opts) = dvs[i].n /\ Cardinality(SeqSet(dvs[i].opts)) = dvs[i].n
         [] dvs[i].kind = "dv" -> dvs[i].c \in NodeIds(g) /\ Kind(g, dvs[i].c) = "dv"
                                   /\ (IF g.nodes[dvs[i].c].disc THEN dvs[i].disc /\ dvs[i].n = g.nodes[dvs[i].c].k
                                       ELSE ~dvs[i].disc /\ dvs[i].lo = g.nodes[dvs[i].c].lo /\ dvs[i].hi = g.nodes[dvs[i].c].hi)
         [] dvs[i].kind = "conn" -> dvs[i].c \in CcIds(g) /\ dvs[i].disc /\ dvs[i].n >= 2
         [] OTHER -> FALSE

(***************************************************************************)
(* Design-variable nodes (C16): every present node has a value inside its  *)
(* domain; absent nodes have none.                                         *)
(***************************************************************************)
DvNodeIds(g) == {i \in NodeIds(g) : Kind(g, i) = "dv"}
InDomain(g, n, v) == IF g.nodes[n].disc THEN v >= 0 /\ v < g.nodes[n].k ELSE v >= g.nodes[n].lo /\ v <= g.nodes[n].hi
Clamp(lo, hi, v) == IF v < lo THEN lo ELSE IF v > hi THEN hi ELSE v
ClampNode(g, n, v) == IF g.nodes[n].disc THEN Clamp(0, g.nodes[n].k - 1, v) ELSE Clamp(g.nodes[n].lo, g.nodes[n].hi, v)

\* linked design-variable nodes (C13): same option index, or same relative position within their bounds
AbsI(n) == IF n < 0 THEN -n ELSE n
LinkedDvOK(g, inst) ==
    \A k \in DOMAIN g.cons : \A i, j \in DOMAIN g.cons[k].dv :
       LET a == g.cons[k].dv[i]
           b == g.cons[k].dv[j]
       IN (HasDvValue(inst, a) /\ HasDvValue(inst, b)) =>
            IF g.nodes[a].disc THEN DvValue(inst, a) = DvValue(inst, b)
            ELSE AbsI((DvValue(inst, a) - g.nodes[a].lo) * (g.nodes[b].hi - g.nodes[b].lo)
                      - (DvValue(inst, b) - g.nodes[b].lo) * (g.nodes[a].hi - g.nodes[a].lo))
                 <= (g.nodes[a].hi - g.nodes[a].lo) + (g.nodes[b].hi - g.nodes[b].lo)
\* every linked node that exists gets a value when one of its partners does
LinkedDvComplete(g, inst) ==
    \A k \in DOMAIN g.cons : \A i, j \in DOMAIN g.cons[k].dv :
       (HasDvValue(inst, g.cons[k].dv[i]) /\ g.cons[k].dv[j] \in SeqSet(inst.nodes)) => HasDvValue(inst, g.cons[k].dv[j])

IsLinkedDv(g, n) == \E k \in DOMAIN g.cons : n \in {g.cons[k].dv[j] : j \in DOMAIN g.cons[k].dv}
\* ---- the decode contract: set of violated clauses for result r of Decode(x, create) -------------------------
\* r = [err, rx, ract, hasinst, inst]
DecodeClauses(g, adm, dvs, x, r) ==
    IF r.err # "" THEN (IF adm # {} THEN {"C01.decode_raised"} ELSE {})
    ELSE
    LET inst == r.inst
        ms == IF r.hasinst THEN MatchSet(g, adm, inst) ELSE {}
    IN
      (IF InRange(dvs, r.rx) THEN {} ELSE {"C03.corrected_vector_out_of_range"})
      \cup (IF Len(r.ract) = Len(dvs) THEN {} ELSE {"C07.activeness_length"})
      \cup (IF Len(r.ract) = Len(dvs) /\ Len(r.rx) = Len(dvs) /\ ~Canonical(dvs, r.rx, r.ract) THEN {"C07.inactive_not_canonical"} ELSE {})
      \cup (IF Len(r.ract) = Len(dvs) /\ \E i \in DOMAIN dvs : ~dvs[i].cond /\ ~r.ract[i] THEN {"C07.unconditional_variable_inactive"} ELSE {})
      \* C16, with or without an instance: the entry the corrected vector reports for an active design-variable-node
      \* variable is the clamp of the requested entry (a linked partner is set from the other node and is exempt)
      \cup (IF Len(x) = Len(dvs) /\ Len(r.rx) = Len(dvs) /\ Len(r.ract) = Len(dvs)
               /\ \E i \in DOMAIN dvs : dvs[i].kind = "dv" /\ r.ract[i] /\ ~IsLinkedDv(g, dvs[i].c) /\ r.rx[i] # ClampNode(g, dvs[i].c, x[i])
            THEN {"C16.vector_entry_not_clamp_of_input"} ELSE {})
      \cup
      (IF ~r.hasinst THEN {}
       ELSE (IF inst.final /\ inst.left = <<>> THEN {} ELSE {"C01.instance_not_final"})
            \cup (IF inst.feasible THEN {} ELSE {"C01.instance_not_feasible"})
            \cup (IF ms # {} THEN {} ELSE {"C01.architecture_not_admissible"})
            \* connection edges: a valid connection set for the connectors that exist (C01 / C11)
            \cup (IF ms = {} \/ \E A \in ms : \A k \in CcIds(g) :
                         LET ed == EdgesOfChoice(g, k, inst.con) IN
                         IsValidConnSet(g, A, k, SemCap(g, A, k), EdgeMatrix(g, k, ed))
                  THEN {} ELSE {"C01.connection_set_invalid", "C11.decoded_connection_set_invalid"})
            \cup (IF LinkedDvOK(g, inst) THEN {} ELSE {"C13.linked_design_variables_differ"})
            \cup (IF LinkedDvComplete(g, inst) THEN {} ELSE {"C13.linked_design_variable_without_value"})
            \cup (IF Len(inst.con) = SumSeq([k \in DOMAIN g.cc |-> Len(EdgesOfChoice(g, k, inst.con))]) THEN {} ELSE {"C11.connection_edge_outside_any_choice"})
            \cup (IF ms = {} \/ Len(r.ract) # Len(dvs) \/ Len(r.rx) # Len(dvs) THEN {}
                  ELSE \* per clause: SOME matching architecture satisfies it (several assignments may denote one graph)
                       (IF \E A \in ms : \A i \in DOMAIN dvs : r.ract[i] => VarNodePresent(g, dvs[i], A) THEN {} ELSE {"C07.active_but_node_absent"})
                       \cup (IF \E A \in ms : \A i \in DOMAIN dvs : (r.ract[i] /\ dvs[i].kind = "sel") => DescribesVar(g, dvs[i], r.rx[i], A, inst) THEN {}
                             ELSE {"C03.vector_does_not_describe_instance"})
                       \cup (IF \E A \in ms : \A i \in DOMAIN dvs : (r.ract[i] /\ dvs[i].kind = "dv") => DescribesVar(g, dvs[i], r.rx[i], A, inst) THEN {}
                             ELSE {"C16.vector_reports_other_value"})
                       \cup (IF \A n \in DvNodeIds(g) \cap SeqSet(inst.nodes) : HasDvValue(inst, n) THEN {} ELSE {"C16.present_node_without_value"})
                       \cup (IF \A p \in DvPairs(inst) : p[1] \in DvNodeIds(g) => InDomain(g, p[1], p[2]) THEN {} ELSE {"C16.value_out_of_domain"})
                       \* (a value stored for an ABSENT linked partner node is not excluded by the property statement: not checked)
                       \cup (IF \A i \in DOMAIN dvs : (dvs[i].kind = "dv" /\ dvs[i].c \notin SeqSet(inst.nodes)) => ~r.ract[i] THEN {} ELSE {"C16.absent_node_active"})
                       \* the value stored is the clamp of the requested value (when the raw vector had the right length)
                       \cup (IF Len(x) = Len(dvs) /\ \E i \in DOMAIN dvs : dvs[i].kind = "dv" /\ r.ract[i] /\ HasDvValue(inst, dvs[i].c)
                                                          /\ DvValue(inst, dvs[i].c) # ClampNode(g, dvs[i].c, x[i])
                             THEN {"C16.value_not_clamp_of_input"} ELSE {})))

\* reference count of valid discrete designs: per admissible architecture, connection sets x discrete DV values
RECURSIVE ProdOver(_, _)
ProdOver(f, S) == IF S = {} THEN 1 ELSE LET x == CHOOSE y \in S : TRUE IN f[x] * ProdOver(f, S \ {x})
RECURSIVE SumOver(_, _)
SumOver(f, S) == IF S = {} THEN 0 ELSE LET x == CHOOSE y \in S : TRUE IN f[x] + SumOver(f, S \ {x})
ArchCount(g, A) ==
    ProdOver([k \in CcIds(g) |-> Cardinality(ValidConnSets(g, A, k, SemCap(g, A, k)))], CcIds(g))
    * ProdOver([n \in DvNodeIds(g) |-> IF n \in A.nodes /\ g.nodes[n].disc THEN g.nodes[n].k ELSE 1], DvNodeIds(g))
RefCount(g, adm) == SumOver([A \in adm |-> ArchCount(g, A)], adm)

ArchDigest(inst) == [nodes |-> SeqSet(inst.nodes), der |-> SeqSet(inst.der), con |-> inst.con, dvv |-> SeqSet(inst.dvv)]
=============================================================================
