------------------------------ MODULE Mon_Graph ------------------------------
(***************************************************************************)
(* Total trace monitor for the graph layer (C02, C06, graph level of C13). *)
(* One trace = one description g with the whole exploration recorded by    *)
(* harness/drive_graph.py.  The monitor keeps, per live object, the        *)
(* selection state the SPECIFICATION assigns to it (objs), consumes one    *)
(* event per step and never blocks: failing clauses are accumulated.       *)
(***************************************************************************)
EXTENDS DSGSem, Json, IOUtils

Traces == JsonDeserialize(IOEnv.TRACE_FILE)

VARIABLES tid, l, objs, adm, admS, fails, drift, seen, finals
vars == <<tid, l, objs, adm, admS, fails, drift, seen, finals>>

T == Traces[tid]
G == T.g
Ev == T.ev[l]
N == Len(T.ev)

\* ---- the specification's own action: take (c,k), then the logged forced choices --------------------------------
RECURSIVE ApplyAuto(_, _, _)
\* returns [sel, bad] : bad = set of clause names
ApplyAuto(sel, auto, i) ==
    IF i > Len(auto) THEN [sel |-> sel, bad |-> {}]
    ELSE LET a == auto[i][1]
             ko == auto[i][2]
         IN IF a \notin ChIds(G) THEN [sel |-> sel, bad |-> {"C02.auto_unknown_choice"}]
            ELSE IF a \notin Active(G, sel) THEN
                 LET r == ApplyAuto(sel, auto, i+1) IN [sel |-> r.sel, bad |-> r.bad \cup {"C02.auto_not_active"}]
            ELSE IF ko = 0 THEN
                 \* the library found no option left: fine iff the semantics has no viable option either
                 LET r == ApplyAuto(sel, auto, i+1) IN
                 [sel |-> r.sel, bad |-> r.bad \cup (IF ViableIn(adm, G, sel, a) # {} THEN {"C06.overpruned_to_no_option"} ELSE {})]
            ELSE IF ko \notin Opts(G, a) THEN
                 LET r == ApplyAuto(sel, auto, i+1) IN [sel |-> r.sel, bad |-> r.bad \cup {"C02.auto_option_not_declared"}]
            ELSE LET r == ApplyAuto([sel EXCEPT ![a] = ko], auto, i+1) IN
                 [sel |-> r.sel,
                  bad |-> r.bad \cup (IF ViableIn(adm, G, sel, a) \subseteq {ko} THEN {} ELSE {"C06.forced_choice_had_other_viable_option"})]

\* ---- observation clauses on the object the code returned, given the spec's selection state s --------------------
OfferedSet(o, c) == UNION {SeqSet(o.offered[i].opts) : i \in {j \in DOMAIN o.offered : o.offered[j].c = c}}
OfferedChoices(o) == {o.offered[i].c : i \in DOMAIN o.offered}

ObsClauses(o, s) ==
    LET A == Arch(G, s)                 \* only meaningful when Active(G, s) = {}
        act == Active(G, s)
        nodes == SeqSet(o.nodes)
    IN
    IF ~o.feasible THEN
         (IF ExtensionExists(adm, s) THEN {IF CcIds(G) = {} THEN "C06.infeasible_but_admissible_extension_exists"
                                           ELSE "C11.scenario_lost_instance_reported_infeasible"} ELSE {})
    ELSE
      \* an instance that still has an open connection choice only claims selection-level admissibility
      (IF act = {} /\ ~ExtensionExists(IF o.cc_left = <<>> THEN adm ELSE admS, s) THEN {"C06.feasible_final_not_admissible"} ELSE {})
      \cup
      (IF o.final THEN
            (IF act # {} THEN {"C02.final_but_active_choice_in_semantics"} ELSE {})
            \cup (IF nodes # Reach(G, s) THEN {"C02.final_nodes_not_closure"} ELSE {})
            \cup (IF ~IncOK(G, nodes) THEN {"C06.conflict_in_feasible_final"} ELSE {})
            \cup (IF o.sel_left # <<>> THEN {"C02.choice_node_left"} ELSE {})
            \cup (IF act = {} /\ SeqSet(o.der) # ArchDerEdges(G, A) THEN {"C02.edges_not_closure_edges"} ELSE {})
       ELSE
            (IF o.next = <<>> /\ o.cc_left = <<>> THEN {"C02.stuck_not_final"} ELSE {})
            \cup (IF o.sel_left = <<>> /\ act = {} /\ nodes # Reach(G, s) THEN {"C02.final_nodes_not_closure"} ELSE {})
            \cup (IF o.sel_left = <<>> /\ act = {} /\ ~IncOK(G, nodes) THEN {"C06.conflict_in_feasible_final"} ELSE {})
            \cup UNION {IF ViableIn(adm, G, s, c) \subseteq OfferedSet(o, c) THEN {} ELSE {"C06.viable_option_not_offered"}
                        : c \in OfferedChoices(o) \cap act}
            \cup (IF OfferedChoices(o) \subseteq act THEN {} ELSE {"C02.next_choice_not_active_in_semantics"})
            \* an option whose selection by itself confirms both ends of an incompatibility must not be offered
            \cup UNION {IF \A k \in OfferedSet(o, c) : IncOK(G, Reach(G, [s EXCEPT ![c] = k])) THEN {}
                        ELSE {"C06.offered_option_confirms_incompatible_pair"} : c \in OfferedChoices(o) \cap act})

\* model-exact comparisons that are NOT demanded by a property: reported as drift only
DriftClauses(o, s) ==
    IF ~o.feasible THEN {}
    ELSE (IF SeqSet(o.conf) # Reach(G, s) THEN {"drift.confirmed_set"} ELSE {})
         \cup (IF ~o.final /\ OfferedChoices(o) # {c \in Active(G, s) : TRUE} THEN {"drift.next_choices"} ELSE {})


\* ---- connection choice of a selection-final instance (C11) -----------------------------------------------------
IdxOf(seq, x) == CHOOSE i \in DOMAIN seq : seq[i] = x
CapDeclared(e, k) ==
    [i \in DOMAIN CcSrcSeq(G, k) |-> [j \in DOMAIN CcTgtSeq(G, k) |->
        LET sN == CcSrcSeq(G, k)[i]
            tN == CcTgtSeq(G, k)[j]
        IN IF sN \in SeqSet(e.srcn) /\ tN \in SeqSet(e.tgtn) THEN e.cap[IdxOf(e.srcn, sN)][IdxOf(e.tgtn, tN)] ELSE 0]]
LimitsOK(e, k, A) ==
    /\ Len(e.cap) = Len(e.srcn) /\ \A i \in DOMAIN e.cap : Len(e.cap[i]) = Len(e.tgtn)
    /\ \A i \in DOMAIN e.srcn : \A j \in DOMAIN e.tgtn :
         /\ (<<e.srcn[i], e.tgtn[j]>> \in ExclPairs(G, k) => e.cap[i][j] = 0)
         /\ ((~ConnRep(G, A, e.srcn[i]) \/ ~ConnRep(G, A, e.tgtn[j])) => e.cap[i][j] <= 1)
ConnClauses(e) ==
    IF e.p \notin DOMAIN objs \/ e.c \notin CcIds(G) THEN {"machinery.bad_conn_event"}
    ELSE LET s == objs[e.p]
             A == Arch(G, s)
             k == e.c
         IN IF e.err # "" THEN {"C11.connection_sets_raised"}
            ELSE IF SeqSet(e.srcn) # CcSrc(G, k) \cap A.nodes \/ SeqSet(e.tgtn) # CcTgt(G, k) \cap A.nodes
                    \/ Cardinality(SeqSet(e.srcn)) # Len(e.srcn) \/ Cardinality(SeqSet(e.tgtn)) # Len(e.tgtn)
                 THEN {"C11.present_connectors_differ"}
            ELSE IF ~LimitsOK(e, k, A) THEN {"C11.excluded_or_parallel_limit_wrong"}
            ELSE LET cap == CapDeclared(e, k)
                     V == ValidConnSets(G, A, k, cap)
                     O == {EdgeMatrix(G, k, e.offered[i]) : i \in DOMAIN e.offered}
                 IN (IF V \subseteq O THEN {} ELSE {"C11.valid_connection_set_not_offered"})
                    \cup (IF O \subseteq V THEN {} ELSE {"C11.invalid_connection_set_offered"})
                    \cup (IF Cardinality(O) = Len(e.offered) THEN {} ELSE {"C11.connection_set_offered_twice"})
                    \cup (IF \A i \in DOMAIN e.val : e.val[i].ok = (EdgeMatrix(G, k, e.val[i].edges) \in V) THEN {} ELSE {"C11.validate_disagrees"})
                    \cup (IF \A i \in DOMAIN e.applied : e.applied[i].err = "" THEN {} ELSE {"C11.apply_raised"})
                    \cup (IF \A i \in DOMAIN e.applied : e.applied[i].err # "" \/
                               (/\ EdgeMatrix(G, k, EdgesOfChoice(G, k, e.applied[i].obs.con)) = EdgeMatrix(G, k, e.applied[i].edges)
                                /\ Len(EdgesOfChoice(G, k, e.applied[i].obs.con)) = Len(e.applied[i].edges)
                                /\ k \notin SeqSet(e.applied[i].obs.cc_left)
                                /\ SeqSet(e.applied[i].obs.nodes) = A.nodes)
                          THEN {} ELSE {"C11.applied_edges_differ"})
                    \cup (IF \A i \in DOMAIN e.applied : e.applied[i].err # "" \/ e.applied[i].obs.feasible \/ e.applied[i].obs.cc_left # <<>> THEN {}
                          ELSE {"C11.valid_set_gives_infeasible_instance"})

\* what "the end result" of a resolution state is: for an infeasible object only the fact that it is infeasible
Digest(o) == IF ~o.feasible THEN [feasible |-> FALSE]
             ELSE [nodes |-> o.nodes, der |-> SeqSet(o.der), feasible |-> o.feasible, final |-> o.final,
                   next |-> SeqSet(o.next), offered |-> {<<o.offered[i].c, SeqSet(o.offered[i].opts)>> : i \in DOMAIN o.offered},
                   con |-> o.con]

\* ---- event processing ---------------------------------------------------------------------------------------
TakeResult(e) ==
    \* returns [sel, bad, ok] ; ok = the event could be interpreted at all
    IF e.p \notin DOMAIN objs THEN [sel |-> NoSel(G), bad |-> {"machinery.unknown_parent"}, ok |-> FALSE]
    ELSE LET s == objs[e.p] IN
         IF e.c \notin ChIds(G) THEN [sel |-> s, bad |-> {"C02.unknown_choice"}, ok |-> FALSE]
         ELSE IF e.k \notin Opts(G, e.c) THEN [sel |-> s, bad |-> {"C02.option_not_declared"}, ok |-> FALSE]
         ELSE LET pre == (IF e.c \notin Active(G, s) THEN {"C02.take_not_active"} ELSE {})
                  s1 == [s EXCEPT ![e.c] = e.k]
              IN IF e.err # "" THEN [sel |-> s1, bad |-> pre \cup {"C02.take_raised"}, ok |-> FALSE]
                 ELSE LET r == ApplyAuto(s1, e.auto, 1) IN [sel |-> r.sel, bad |-> pre \cup r.bad, ok |-> TRUE]

InitResult(e) == IF e.err # "" THEN [sel |-> NoSel(G), bad |-> {IF G.cons # <<>> THEN "C13.constrain_choices_raised" ELSE "C02.initialisation_raised"}, ok |-> FALSE]
                 ELSE LET r == ApplyAuto(NoSel(G), e.auto, 1) IN [sel |-> r.sel, bad |-> r.bad, ok |-> TRUE]

Tag(S) == {<<c, l>> : c \in S}

OrderClause(s, o) == IF \E pr \in seen : pr[1] = s /\ pr[2] # Digest(o) THEN {"C02.order_dependent"} ELSE {}

Init == /\ tid \in DOMAIN Traces
        /\ l = 1
        /\ objs = <<>>
        /\ admS = SelAdmissible(Traces[tid].g)
        /\ adm = {A \in SelAdmissible(Traces[tid].g) : ConnFeasibleArch(Traces[tid].g, A)}
        /\ fails = {} /\ drift = {} /\ seen = {} /\ finals = {}

ConnStep == /\ l <= N /\ Ev.e = "Conn"
            /\ fails' = fails \cup Tag(ConnClauses(Ev))
            /\ l' = l + 1
            /\ UNCHANGED <<tid, objs, adm, admS, drift, seen, finals>>

Step == /\ l <= N /\ Ev.e # "Conn"
        /\ LET e == Ev
               r == IF e.e = "Init" THEN InitResult(e) ELSE TakeResult(e)
               oc == IF r.ok THEN ObsClauses(e.obs, r.sel) \cup OrderClause(r.sel, e.obs) ELSE {}
           IN /\ fails' = fails \cup Tag(r.bad \cup oc)
              /\ drift' = drift \cup (IF r.ok THEN Tag(DriftClauses(e.obs, r.sel)) ELSE {})
              /\ objs' = IF r.ok THEN (e.q :> r.sel) @@ objs ELSE objs
              /\ seen' = IF r.ok THEN seen \cup {<<r.sel, Digest(e.obs)>>} ELSE seen
              /\ finals' = IF r.ok /\ e.obs.feasible /\ e.obs.sel_left = <<>> /\ Active(G, r.sel) = {} THEN finals \cup {Arch(G, r.sel)} ELSE finals
        /\ l' = l + 1
        /\ UNCHANGED <<tid, adm, admS>>

\* end-of-trace completeness (C02 set equality / C06 nothing over-pruned): only when the exploration was complete
Finish == /\ l = N + 1
          /\ fails' = fails \cup
                 (IF T.trunc THEN {}
                  ELSE Tag((IF adm \subseteq finals THEN {} ELSE {IF CcIds(G) = {} THEN "C06.admissible_architecture_unreachable" ELSE "C11.scenario_lost"})
                           \cup (IF finals \subseteq admS THEN {} ELSE {"C02.reached_final_not_admissible"})))
          /\ l' = l + 1
          /\ UNCHANGED <<tid, objs, adm, admS, drift, seen, finals>>

Next == Step \/ ConnStep \/ Finish
Spec == Init /\ [][Next]_vars

Report == (l = N + 2) =>
            PrintT(<<"VERDICT", T.tid, fails, drift, Cardinality(adm), Cardinality(finals), Cardinality(DOMAIN objs)>>)
=============================================================================
