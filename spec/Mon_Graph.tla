------------------------------ MODULE Mon_Graph ------------------------------
(***************************************************************************)
(* Total trace monitor for the graph layer (C02, C06, graph level of C13). *)
(* One trace = one description g with the whole exploration recorded by    *)
(* harness/drive_graph.py.  The monitor keeps, per live object, the        *)
(* selection state the SPECIFICATION assigns to it (objs), consumes one    *)
(* event per step and never blocks: failing clauses are accumulated.       *)
(***************************************************************************)
EXTENDS DSGSem, Json, IOUtils

Traces == JsonDeserialize(IOEnv.TRACE_FILE)

VARIABLES tid, l, objs, adm, fails, drift, seen, finals
vars == <<tid, l, objs, adm, fails, drift, seen, finals>>

T == Traces[tid]
G == T.g
Ev == T.ev[l]
N == Len(T.ev)

\* ---- the specification's own action: take (c,k), then the logged forced choices --------------------------------
RECURSIVE ApplyAuto(_, _, _)
\* returns [sel, bad] : bad = set of clause names
ApplyAuto(sel, auto, i) ==
    IF i > Len(auto) THEN [sel |-> sel, bad |-> {}]
    ELSE LET a == auto[i][1]
             ko == auto[i][2]
         IN IF a \notin ChIds(G) THEN [sel |-> sel, bad |-> {"C02.auto_unknown_choice"}]
            ELSE IF a \notin Active(G, sel) THEN
                 LET r == ApplyAuto(sel, auto, i+1) IN [sel |-> r.sel, bad |-> r.bad \cup {"C02.auto_not_active"}]
            ELSE IF ko = 0 THEN
                 \* the library found no option left: fine iff the semantics has no viable option either
                 LET r == ApplyAuto(sel, auto, i+1) IN
                 [sel |-> r.sel, bad |-> r.bad \cup (IF ViableIn(adm, G, sel, a) # {} THEN {"C06.overpruned_to_no_option"} ELSE {})]
            ELSE IF ko \notin Opts(G, a) THEN
                 LET r == ApplyAuto(sel, auto, i+1) IN [sel |-> r.sel, bad |-> r.bad \cup {"C02.auto_option_not_declared"}]
            ELSE LET r == ApplyAuto([sel EXCEPT ![a] = ko], auto, i+1) IN
                 [sel |-> r.sel,
                  bad |-> r.bad \cup (IF ViableIn(adm, G, sel, a) \subseteq {ko} THEN {} ELSE {"C06.forced_choice_had_other_viable_option"})]

\* ---- observation clauses on the object the code returned, given the spec's selection state s --------------------
OfferedSet(o, c) == UNION {SeqSet(o.offered[i].opts) : i \in {j \in DOMAIN o.offered : o.offered[j].c = c}}
OfferedChoices(o) == {o.offered[i].c : i \in DOMAIN o.offered}

ObsClauses(o, s) ==
    LET A == Arch(G, s)                 \* only meaningful when Active(G, s) = {}
        act == Active(G, s)
        nodes == SeqSet(o.nodes)
    IN
    IF ~o.feasible THEN
         (IF ExtensionExists(adm, s) THEN {"C06.infeasible_but_admissible_extension_exists"} ELSE {})
    ELSE
      (IF ~ExtensionExists(adm, s) /\ act = {} THEN {"C06.feasible_final_not_admissible"} ELSE {})
      \cup
      (IF o.final THEN
            (IF act # {} THEN {"C02.final_but_active_choice_in_semantics"} ELSE {})
            \cup (IF nodes # Reach(G, s) THEN {"C02.final_nodes_not_closure"} ELSE {})
            \cup (IF ~IncOK(G, nodes) THEN {"C06.conflict_in_feasible_final"} ELSE {})
            \cup (IF o.sel_left # <<>> THEN {"C02.choice_node_left"} ELSE {})
            \cup (IF act = {} /\ SeqSet(o.der) # ArchDerEdges(G, A) THEN {"C02.edges_not_closure_edges"} ELSE {})
       ELSE
            (IF o.next = <<>> /\ o.cc_left = <<>> THEN {"C02.stuck_not_final"} ELSE {})
            \cup UNION {IF ViableIn(adm, G, s, c) \subseteq OfferedSet(o, c) THEN {} ELSE {"C06.viable_option_not_offered"}
                        : c \in OfferedChoices(o) \cap act}
            \cup (IF OfferedChoices(o) \subseteq act THEN {} ELSE {"C02.next_choice_not_active_in_semantics"}))

\* model-exact comparisons that are NOT demanded by a property: reported as drift only
DriftClauses(o, s) ==
    IF ~o.feasible THEN {}
    ELSE (IF SeqSet(o.conf) # Reach(G, s) THEN {"drift.confirmed_set"} ELSE {})
         \cup (IF ~o.final /\ OfferedChoices(o) # {c \in Active(G, s) : TRUE} THEN {"drift.next_choices"} ELSE {})

\* what "the end result" of a resolution state is: for an infeasible object only the fact that it is infeasible
Digest(o) == IF ~o.feasible THEN [feasible |-> FALSE]
             ELSE [nodes |-> o.nodes, der |-> SeqSet(o.der), feasible |-> o.feasible, final |-> o.final,
                   next |-> SeqSet(o.next), offered |-> {<<o.offered[i].c, SeqSet(o.offered[i].opts)>> : i \in DOMAIN o.offered},
                   con |-> o.con]

\* ---- event processing ---------------------------------------------------------------------------------------
TakeResult(e) ==
    \* returns [sel, bad, ok] ; ok = the event could be interpreted at all
    IF e.p \notin DOMAIN objs THEN [sel |-> NoSel(G), bad |-> {"machinery.unknown_parent"}, ok |-> FALSE]
    ELSE LET s == objs[e.p] IN
         IF e.c \notin ChIds(G) THEN [sel |-> s, bad |-> {"C02.unknown_choice"}, ok |-> FALSE]
         ELSE IF e.k \notin Opts(G, e.c) THEN [sel |-> s, bad |-> {"C02.option_not_declared"}, ok |-> FALSE]
         ELSE LET pre == (IF e.c \notin Active(G, s) THEN {"C02.take_not_active"} ELSE {})
                  s1 == [s EXCEPT ![e.c] = e.k]
              IN IF e.err # "" THEN [sel |-> s1, bad |-> pre \cup {"C02.take_raised"}, ok |-> FALSE]
                 ELSE LET r == ApplyAuto(s1, e.auto, 1) IN [sel |-> r.sel, bad |-> pre \cup r.bad, ok |-> TRUE]

InitResult(e) == LET r == ApplyAuto(NoSel(G), e.auto, 1) IN [sel |-> r.sel, bad |-> r.bad, ok |-> TRUE]

Tag(S) == {<<c, l>> : c \in S}

OrderClause(s, o) == IF \E pr \in seen : pr[1] = s /\ pr[2] # Digest(o) THEN {"C02.order_dependent"} ELSE {}

Init == /\ tid \in DOMAIN Traces
        /\ l = 1
        /\ objs = <<>>
        /\ adm = SelAdmissible(Traces[tid].g)
        /\ fails = {} /\ drift = {} /\ seen = {} /\ finals = {}

Step == /\ l <= N
        /\ LET e == Ev
               r == IF e.e = "Init" THEN InitResult(e) ELSE TakeResult(e)
               oc == IF r.ok THEN ObsClauses(e.obs, r.sel) \cup OrderClause(r.sel, e.obs) ELSE {}
           IN /\ fails' = fails \cup Tag(r.bad \cup oc)
              /\ drift' = drift \cup (IF r.ok THEN Tag(DriftClauses(e.obs, r.sel)) ELSE {})
              /\ objs' = IF r.ok THEN (e.q :> r.sel) @@ objs ELSE objs
              /\ seen' = IF r.ok THEN seen \cup {<<r.sel, Digest(e.obs)>>} ELSE seen
              /\ finals' = IF r.ok /\ e.obs.feasible /\ e.obs.final THEN finals \cup {Arch(G, r.sel)} ELSE finals
        /\ l' = l + 1
        /\ UNCHANGED <<tid, adm>>

\* end-of-trace completeness (C02 set equality / C06 nothing over-pruned): only when the exploration was complete
Finish == /\ l = N + 1
          /\ fails' = fails \cup
                 (IF T.trunc THEN {}
                  ELSE Tag((IF adm \subseteq finals THEN {} ELSE {"C06.admissible_architecture_unreachable"})
                           \cup (IF finals \subseteq adm THEN {} ELSE {"C02.reached_final_not_admissible"})))
          /\ l' = l + 1
          /\ UNCHANGED <<tid, objs, adm, drift, seen, finals>>

Next == Step \/ Finish
Spec == Init /\ [][Next]_vars

Report == (l = N + 2) =>
            PrintT(<<"VERDICT", T.tid, fails, drift, Cardinality(adm), Cardinality(finals), Cardinality(DOMAIN objs)>>)
=============================================================================
