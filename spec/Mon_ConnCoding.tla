---------------------------- MODULE Mon_ConnCoding ----------------------------
(***************************************************************************)
(* Total trace monitor for connection encoders (C10).  Per settings: Pat   *)
(* events fix the valid matrices of every existence pattern (ConnSem);     *)
(* then per encoder x imputer: Enc, CDec* (decode of every declared and    *)
(* some out-of-range / over-long vectors, each corrected vector decoded    *)
(* again), All (the listed design vectors).                                *)
(* The abstract coding machine: history variables                          *)
(*   x2m  : (pattern, corrected x) -> matrix      (faithful: a function)   *)
(*   outs : (pattern, corrected x, activeness)    (listed = produced)      *)
(*   seen : pattern -> matrices produced          (onto)                   *)
(***************************************************************************)
EXTENDS ConnSem, Json, IOUtils

Traces == JsonDeserialize(IOEnv.TRACE_FILE)
VARIABLES tid, l, valid, ndv, alive, x2m, outs, seen, used, complete, fails
vars == <<tid, l, valid, ndv, alive, x2m, outs, seen, used, complete, fails>>
T == Traces[tid]
S == T.s
N == Len(T.ev)
Tag(X) == {<<c, l>> : c \in X}
Prob(e) == [src |-> S.src, tgt |-> S.tgt, so |-> e.so, to |-> e.to, cap |-> e.cap, mcp |-> S.mcp]

InRangeX(x) == Len(x) >= Len(ndv) /\ \A i \in DOMAIN x : IF i <= Len(ndv) THEN x[i] >= 0 /\ x[i] < ndv[i] ELSE x[i] = 0

\* end of an encoder's events (next Enc or end of trace): onto-ness, listed vectors, used values
EndClauses ==
    IF ~alive THEN {}
    ELSE (IF \A p \in DOMAIN valid : (p \in complete /\ valid[p] # {}) => {pr[2] : pr \in {q \in seen : q[1] = p}} = valid[p] THEN {} ELSE {"C10.not_onto"})
         \cup (IF \A i \in DOMAIN ndv : Cardinality({u[2] : u \in {w \in used : w[1] = i}}) >= 2 THEN {} ELSE {"C10.variable_with_one_value"})

EncStep(e) ==
    /\ fails' = fails \cup Tag(EndClauses \cup (IF e.err # "" THEN {"C10.encoder_construction_raised"} ELSE {}))
    /\ ndv' = e.ndv /\ alive' = (e.err = "" /\ ~e.refused)
    /\ x2m' = {} /\ outs' = {} /\ seen' = {} /\ used' = {} /\ complete' = {}
    /\ UNCHANGED valid

DecStep(e) ==
    LET p == e.pi
        relevant == alive /\ p \in DOMAIN valid /\ valid[p] # {}
        ok == e.err = ""
        c == IF ~relevant THEN {}
             ELSE IF ~ok THEN {"C10.decode_raised"}
             ELSE (IF e.hasm /\ e.m \in valid[p] THEN {} ELSE {"C10.matrix_invalid"})
                  \cup (IF Len(e.rx) = Len(e.x) /\ Len(e.ract) = Len(e.x) /\ InRangeX(e.rx) THEN {} ELSE {"C10.corrected_vector_out_of_range"})
                  \cup (IF Len(e.rx) = Len(e.ract) /\ \A i \in DOMAIN e.rx : ~e.ract[i] => e.rx[i] = 0 THEN {} ELSE {"C10.inactive_not_canonical"})
                  \cup (IF \E o \in outs : o[1] = p /\ o[2] = e.x /\ e.rx # e.x THEN {"C10.not_idempotent"} ELSE {})
                  \cup (IF \E q \in x2m : q[1] = p /\ q[2] = e.rx /\ q[3] # e.m THEN {"C10.same_vector_two_matrices"} ELSE {})
                  \cup (IF \E o \in outs : o[1] = p /\ o[2] = e.rx /\ o[3] # e.ract THEN {"C07.conn_activeness_path_dependent"} ELSE {})
    IN /\ fails' = fails \cup Tag(c)
       /\ x2m' = IF relevant /\ ok /\ ~e.odd THEN x2m \cup {<<p, e.rx, e.m>>} ELSE x2m
       /\ outs' = IF relevant /\ ok /\ ~e.odd THEN outs \cup {<<p, e.rx, e.ract>>} ELSE outs
       /\ seen' = IF relevant /\ ok /\ e.hasm THEN seen \cup {<<p, e.m>>} ELSE seen
       /\ UNCHANGED <<valid, ndv, alive, used, complete>>

\* listed design vectors: -1 marks inactive
RowX(r) == [i \in DOMAIN r |-> IF r[i] = -1 THEN 0 ELSE r[i]]
RowAct(r) == [i \in DOMAIN r |-> r[i] # -1]
AllStep(e) ==
    LET p == e.pi
        relevant == alive /\ p \in DOMAIN valid /\ valid[p] # {}
        rows == CSeqSet(e.rows)
        listed == {RowX(r) : r \in rows}
        listedAct == {<<RowX(r), RowAct(r)>> : r \in rows}
        produced == {o[2] : o \in {q \in outs : q[1] = p}}
        producedAct == {<<o[2], o[3]>> : o \in {q \in outs : q[1] = p}}
        c == IF ~relevant THEN {}
             ELSE IF e.err # "" THEN {"C10.all_design_vectors_raised"}
             ELSE (IF Cardinality(rows) = Len(e.rows) THEN {} ELSE {"C10.listed_vector_duplicate"})
                  \cup (IF produced \subseteq listed THEN {} ELSE {"C10.produced_vector_not_listed"})
                  \cup (IF ~e.complete \/ listed \subseteq produced THEN {} ELSE {"C10.listed_vector_never_produced"})
                  \* C07: the activeness listed for a valid vector is the activeness its decode reports
                  \cup (IF \A pa \in producedAct : \A la \in listedAct : pa[1] = la[1] => pa[2] = la[2] THEN {} ELSE {"C07.listed_activeness_differs_from_decode"})
    IN /\ fails' = fails \cup Tag(c)
       /\ used' = IF relevant THEN used \cup UNION {{<<i, r[i]>> : i \in {j \in DOMAIN r : r[j] # -1}} : r \in rows} ELSE used
       /\ complete' = IF e.complete THEN complete \cup {p} ELSE complete
       /\ UNCHANGED <<valid, ndv, alive, x2m, outs, seen>>

Init == /\ tid \in DOMAIN Traces /\ l = 1 /\ valid = <<>> /\ ndv = <<>> /\ alive = FALSE
        /\ x2m = {} /\ outs = {} /\ seen = {} /\ used = {} /\ complete = {} /\ fails = {}
Step == /\ l <= N
        /\ LET e == T.ev[l] IN
           CASE e.e = "Settings" -> UNCHANGED <<valid, ndv, alive, x2m, outs, seen, used, complete, fails>>
             [] e.e = "Pat" -> /\ valid' = Append(valid, ValidMatrices(Prob(e)))
                               /\ UNCHANGED <<ndv, alive, x2m, outs, seen, used, complete, fails>>
             [] e.e = "Enc" -> EncStep(e)
             [] e.e = "CDec" -> DecStep(e)
             [] e.e = "All" -> AllStep(e)
             [] OTHER -> fails' = fails \cup Tag({"machinery.unknown_event"}) /\ UNCHANGED <<valid, ndv, alive, x2m, outs, seen, used, complete>>
        /\ l' = l + 1 /\ UNCHANGED tid
Finish == /\ l = N + 1 /\ fails' = fails \cup Tag(EndClauses) /\ l' = l + 1
          /\ UNCHANGED <<tid, valid, ndv, alive, x2m, outs, seen, used, complete>>
Spec == Init /\ [][Step \/ Finish]_vars
Report == (l = N + 2) => PrintT(<<"VERDICT", T.tid, fails, [p \in DOMAIN valid |-> Cardinality(valid[p])]>>)
=============================================================================
