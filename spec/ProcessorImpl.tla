--------------------------- MODULE ProcessorImpl ---------------------------
(***************************************************************************)
(* Implementation-shaped model of the decode path of the complete encoder  *)
(* (hierarchy/base.py, graph_processor.py) over a concrete problem:        *)
(*   Rows      the valid option-index combinations (-1 = inactive)         *)
(*   feasMask  the stored _feasibility_mask (set of row indices)           *)
(*   fixed     partial map variable -> fixed value                         *)
(*   last      the row of the instance handed out last (0 = none)          *)
(*   dirty     rows whose CACHED graph object was changed by its holder    *)
(*   gotDirty  a decode handed out an object somebody else had changed     *)
(* Two configuration constants say what the tree does:                     *)
(*   MaskAliased        the decode loop ANDs the caller's mask INTO the    *)
(*                      stored feasibility mask (base.py:190-195)          *)
(*   CacheHandsOutSame  the cached graph object itself is returned         *)
(* The abstract contract it must refine is Pure: whatever the history, a   *)
(* decode answers what a freshly built processor with the same fixed       *)
(* values answers, and handed-out instances are independent objects.       *)
(* The problem is read from JSON (written by harness/drive_hist.py from a  *)
(* real processor), so the behaviours TLC generates are replayable.        *)
(***************************************************************************)
EXTENDS Integers, Sequences, FiniteSets, TLC, Json, IOUtils
CONSTANTS MaskAliased, CacheHandsOutSame, MaxDepth

Problem == JsonDeserialize(IOEnv.PROBLEM_FILE)
Rows == Problem.rows
NV == Problem.nv
NOpts == Problem.nopts
Xs == {Problem.xs[i] : i \in DOMAIN Problem.xs}
Idx == DOMAIN Rows
Vars == 1..NV
Abs(n) == IF n < 0 THEN -n ELSE n
RECURSIVE DistFrom(_, _, _)
DistFrom(r, x, i) == IF i > NV THEN 0 ELSE (IF r[i] = -1 THEN 0 ELSE Abs(r[i] - x[i])) + DistFrom(r, x, i+1)
Dist(r, x) == DistFrom(r, x, 1)
FixMask(fx) == {i \in Idx : \A v \in DOMAIN fx : Rows[i][v] = fx[v]}          \* get_available_combinations_mask
Closest(x, inc) == IF inc = {} THEN 0
                   ELSE CHOOSE i \in inc : \A j \in inc : Dist(Rows[i], x) < Dist(Rows[j], x) \/ (Dist(Rows[i], x) = Dist(Rows[j], x) /\ i <= j)
Full(fx, x) == [v \in Vars |-> IF v \in DOMAIN fx THEN fx[v] ELSE x[v]]          \* _get_all_des_var_values
Fresh(fx, x) == Closest(Full(fx, x), FixMask(fx))                               \* what a new processor answers

VARIABLES feasMask, fixed, last, dirty, gotDirty, hist
vars == <<feasMask, fixed, last, dirty, gotDirty, hist>>

Init == /\ feasMask = Idx /\ fixed = <<>> /\ last = 0 /\ dirty = {} /\ gotDirty = FALSE /\ hist = <<>>

\* Decode(x, create): row chosen among feasMask /\ FixMask(fixed); with the alias the intersection is stored back.
\* With CacheHandsOutSame the instance handed out IS the cached object of that row, otherwise an independent copy.
Decode(x, create) ==
    LET inc == feasMask \cap FixMask(fixed)
        row == Closest(Full(fixed, x), inc)
    IN /\ inc # {}
       /\ feasMask' = IF MaskAliased THEN inc ELSE feasMask
       /\ last' = IF create THEN row ELSE last
       /\ gotDirty' = (gotDirty \/ (create /\ row \in dirty))
       /\ hist' = Append(hist, [op |-> "Decode", x |-> x, create |-> create, v |-> 0, val |-> 0])
       /\ UNCHANGED <<fixed, dirty>>
Enumerate == /\ hist' = Append(hist, [op |-> "Enumerate", x |-> <<>>, create |-> FALSE, v |-> 0, val |-> 0])
             /\ UNCHANGED <<feasMask, fixed, last, dirty, gotDirty>>
Stats == /\ hist' = Append(hist, [op |-> "Stats", x |-> <<>>, create |-> FALSE, v |-> 0, val |-> 0])
         /\ UNCHANGED <<feasMask, fixed, last, dirty, gotDirty>>
Fix(v, val) == /\ v \notin DOMAIN fixed
               /\ fixed' = [w \in DOMAIN fixed \cup {v} |-> IF w = v THEN val ELSE fixed[w]]
               /\ hist' = Append(hist, [op |-> "Fix", x |-> <<>>, create |-> FALSE, v |-> v, val |-> val])
               /\ UNCHANGED <<feasMask, last, dirty, gotDirty>>
Free(v) == /\ v \in DOMAIN fixed
           /\ fixed' = [w \in DOMAIN fixed \ {v} |-> fixed[w]]
           /\ hist' = Append(hist, [op |-> "Free", x |-> <<>>, create |-> FALSE, v |-> v, val |-> 0])
           /\ UNCHANGED <<feasMask, last, dirty, gotDirty>>
\* the caller stores a metric / variable value on the instance it was handed last
Mutate == /\ last # 0
          /\ dirty' = IF CacheHandsOutSame THEN dirty \cup {last} ELSE dirty
          /\ hist' = Append(hist, [op |-> "Mutate", x |-> <<>>, create |-> FALSE, v |-> 0, val |-> 0])
          /\ UNCHANGED <<feasMask, fixed, last, gotDirty>>
Pickle == /\ hist' = Append(hist, [op |-> "Pickle", x |-> <<>>, create |-> FALSE, v |-> 0, val |-> 0])
          /\ UNCHANGED <<feasMask, fixed, last, dirty, gotDirty>>

Next == \/ \E x \in Xs : \E c \in BOOLEAN : Decode(x, c)
        \/ Enumerate \/ Stats \/ Mutate \/ Pickle
        \/ \E v \in Vars : \E val \in 0..(NOpts[v] - 1) : Fix(v, val)
        \/ \E v \in Vars : Free(v)
Spec == Init /\ [][Next]_vars

Bound == Len(hist) <= MaxDepth
CoreView == <<feasMask, fixed, last, dirty, gotDirty>>

\* ---- the abstract contract -------------------------------------------------------------------------------------
Pure == \A x \in Xs : LET inc == feasMask \cap FixMask(fixed) IN
           FixMask(fixed) # {} => (inc # {} /\ Closest(Full(fixed, x), inc) = Fresh(fixed, x))
\* an instance that was mutated by its holder is never the object a later decode hands out
Independent == ~gotDirty
\* fixing / freeing is exact: the mask in force is a function of the fixed values only (C15)
FixExact == feasMask \cap FixMask(fixed) = FixMask(fixed)
\* behaviour generation: one (breadth-first, hence shortest) operation sequence per distinct abstract state
EmitHist == PrintT(<<"HIST", CoreView, hist>>)
=============================================================================
