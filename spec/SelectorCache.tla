---------------------------- MODULE SelectorCache ----------------------------
(***************************************************************************)
(* Encoder selection with an on-disk cache (selector.py:47-67, 366-375),   *)
(* for a set of processes that share the cache directory.                  *)
(*   disk   : key -> [for: settings, val: coding] or "partial"             *)
(*   Select(p, s): Lookup (hit: return what is stored) / Compute (any      *)
(*     subset of candidate encoders may time out; what is left that        *)
(*     accepts s yields a coding of s; nothing left: failure) / Store      *)
(*     (two steps when NonAtomicWrite: the file is truncated first).       *)
(* Safety: a returned coding is a coding of the settings asked for         *)
(* (Transparent; needs an injective key), and selection does not fail as   *)
(* long as one candidate is immune to the time limit (AlwaysSucceeds).     *)
(* With NonAtomicWrite = TRUE a concurrent reader can see the truncated    *)
(* file (TornRead): a model-level observation about concurrent schedules,  *)
(* which the property (histories, not schedules) does not claim.           *)
(***************************************************************************)
EXTENDS Naturals, FiniteSets, TLC
CONSTANTS Procs, Settings, Encoders, KeyInjective, NonAtomicWrite, RobustEncoder
Key(s) == IF KeyInjective THEN s ELSE "k"
VARIABLES disk, pc, want, got, timedOut
vars == <<disk, pc, want, got, timedOut>>
E(tag, s, v) == [tag |-> tag, for |-> s, val |-> v]
None == E("none", "-", "-")
Init == /\ disk = [k \in {Key(s) : s \in Settings} |-> None]
        /\ pc = [p \in Procs |-> "idle"] /\ want = [p \in Procs |-> "none"] /\ got = [p \in Procs |-> None]
        /\ timedOut = [p \in Procs |-> {}]
Start(p, s) == /\ pc[p] = "idle" /\ got[p].tag = "none"
               /\ want' = [want EXCEPT ![p] = s] /\ pc' = [pc EXCEPT ![p] = "lookup"]
               /\ UNCHANGED <<disk, got, timedOut>>
Lookup(p) == /\ pc[p] = "lookup"
             /\ LET e == disk[Key(want[p])] IN
                IF e.tag = "none" THEN pc' = [pc EXCEPT ![p] = "compute"] /\ UNCHANGED got
                ELSE got' = [got EXCEPT ![p] = e] /\ pc' = [pc EXCEPT ![p] = "done"]
             /\ UNCHANGED <<disk, want, timedOut>>
Compute(p) == /\ pc[p] = "compute"
              /\ \E T \in SUBSET (Encoders \ {RobustEncoder}) :
                    /\ timedOut' = [timedOut EXCEPT ![p] = T]
                    /\ LET left == Encoders \ T IN
                       IF left = {} THEN got' = [got EXCEPT ![p] = E("failure", want[p], "-")] /\ pc' = [pc EXCEPT ![p] = "done"]
                       ELSE \E enc \in left : /\ got' = [got EXCEPT ![p] = E("ok", want[p], enc)]
                                             /\ pc' = [pc EXCEPT ![p] = IF NonAtomicWrite THEN "open" ELSE "dump"]
              /\ UNCHANGED <<disk, want>>
Open(p) == /\ pc[p] = "open" /\ disk' = [disk EXCEPT ![Key(want[p])] = E("partial", "-", "-")] /\ pc' = [pc EXCEPT ![p] = "dump"]
           /\ UNCHANGED <<want, got, timedOut>>
Dump(p) == /\ pc[p] = "dump" /\ disk' = [disk EXCEPT ![Key(want[p])] = got[p]] /\ pc' = [pc EXCEPT ![p] = "done"]
           /\ UNCHANGED <<want, got, timedOut>>
Next == \E p \in Procs : Lookup(p) \/ Compute(p) \/ Open(p) \/ Dump(p) \/ \E s \in Settings : Start(p, s)
Spec == Init /\ [][Next]_vars
Transparent == \A p \in Procs : (pc[p] = "done" /\ got[p].tag = "ok") => got[p].for = want[p]
AlwaysSucceeds == \A p \in Procs : pc[p] = "done" => got[p].tag # "failure"
NoTornRead == \A p \in Procs : got[p].tag # "partial"
=============================================================================
