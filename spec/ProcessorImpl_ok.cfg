SPECIFICATION Spec
CONSTANTS MaskAliased = FALSE  CacheHandsOutSame = FALSE  MaxDepth = 6
INVARIANT Pure
INVARIANT Independent
INVARIANT FixExact
VIEW CoreView
CONSTRAINT Bound
CHECK_DEADLOCK FALSE
