------------------------------- MODULE Mon_Ident -------------------------------
(* Monitor for C18 (harness/drive_ident.py): the equality oracle is Identity.tla's ExpectedEqual (sets of edits per side). *)
EXTENDS Integers, Sequences, FiniteSets, TLC, Json, IOUtils
Traces == JsonDeserialize(IOEnv.TRACE_FILE)
VARIABLES tid, l, fails
vars == <<tid, l, fails>>
T == Traces[tid]
N == Len(T.ev)
Tag(X) == {<<c, l>> : c \in X}
SS(s) == {s[i] : i \in DOMAIN s}

SeqClauses(e) ==
    IF e.err # "" THEN {"C18.edit_sequence_raised"}
    ELSE UNION {
        \* (the property demands that an edit is DETECTED; that applying the same edit to the other side re-establishes
        \*  equality is not demanded -- constraint objects, for instance, are compared by identity -- so it is not checked)
        (IF ~e.steps[i].expected_equal /\ e.steps[i].eq THEN {"C18.edit_not_detected"} ELSE {})
        \cup (IF e.steps[i].eq /\ ~e.steps[i].hash_eq THEN {"C18.equal_objects_different_hash"} ELSE {})
        : i \in DOMAIN e.steps}

Clauses(e) ==
    CASE e.e = "Copy" -> (IF e.err # "" THEN {"C18.copy_raised"} ELSE {})
                         \cup (IF e.eq THEN {} ELSE {"C18.copy_not_equal"})
                         \cup (IF e.hash_eq THEN {} ELSE {"C18.copy_hash_differs"})
                         \cup (IF e.same_fp /\ e.is_same THEN {} ELSE {"C18.copy_fingerprint_differs"})
      [] e.e = "Seq" -> SeqClauses(e)
      [] e.e = "Pickle" -> (IF e.err # "" THEN {"C18.pickle_raised"} ELSE {})
                           \cup (IF e.err = "" /\ ~(e.graph_same /\ e.graph_fp_eq /\ e.graph_eq_nodes) THEN {"C18.pickled_graph_not_same"} ELSE {})
                           \cup (IF e.err = "" /\ ~e.proc_dvs_eq THEN {"C18.pickled_processor_variables_differ"} ELSE {})
                           \cup (IF e.err = "" /\ ~e.proc_map_eq THEN {"C18.pickled_processor_decode_differs"} ELSE {})
      [] e.e = "OtherProcess" -> (IF e.err # "" THEN {"machinery.other_process_failed"} ELSE {})
                           \cup (IF e.err = "" /\ ~e.fp_eq THEN {"C18.fingerprint_differs_across_processes"} ELSE {})
                           \cup (IF e.err = "" /\ ~(e.unpickled_same /\ e.unpickled_fp_eq) THEN {"C18.graph_from_other_process_not_same"} ELSE {})
                           \cup (IF e.err = "" /\ ~e.desc_eq THEN {"C18.variables_or_decode_differ_across_processes"} ELSE {})
                           \cup (IF e.err = "" /\ ~e.unpickled_proc_dvs_eq THEN {"C18.processor_from_other_process_differs"} ELSE {})
      [] e.e = "Export" -> (IF e.err # "" THEN {"C18.export_raised"} ELSE {})
                           \cup (IF e.err = "" /\ (e.gml_missing_nodes # 0 \/ e.dot_missing_nodes # 0) THEN {"C18.export_missing_node"} ELSE {})
                           \cup (IF e.err = "" /\ (e.gml_missing_edges # 0 \/ e.dot_missing_edges # 0) THEN {"C18.export_missing_edge"} ELSE {})
      [] OTHER -> {}

Init == tid \in DOMAIN Traces /\ l = 1 /\ fails = {}
Step == /\ l <= N /\ fails' = fails \cup Tag(Clauses(T.ev[l])) /\ l' = l + 1 /\ UNCHANGED tid
Spec == Init /\ [][Step]_vars
Report == (l = N + 1) => PrintT(<<"VERDICT", T.tid, fails, N>>)
=============================================================================
