---------------------------- MODULE TimeLimiter ----------------------------
(***************************************************************************)
(* run_timeout (optimization/assign_enc/time_limiter.py) with LEVELS       *)
(* nested calls.  Thread t (0..LEVELS): thread 0 is the top-level caller;  *)
(* thread t >= 1 is the worker of call t (made by thread t-1) and, if      *)
(* t < LEVELS, the caller of call t+1.  The innermost worker runs the      *)
(* user function.  One label = one atomic step between two hook points of  *)
(* the implementation (adsg_core/_verif.point).                            *)
(*                                                                         *)
(* Configuration constants describe what the tree does:                    *)
(*   JoinOnExceptionPath  an exception that reaches the caller inside      *)
(*                        run_timeout (the interrupt aimed at it by an     *)
(*                        outer call) still interrupts + joins its worker  *)
(*                        (FALSE = the code: the with-block is left)       *)
(*   OwnTimeoutDistinct   a TimeoutError raised by the function itself is  *)
(*                        re-raised as such (TRUE since d210e11)           *)
(***************************************************************************)
EXTENDS Naturals, Sequences, FiniteSets, TLC
CONSTANTS LEVELS, JoinOnExceptionPath, OwnTimeoutDistinct
Calls == 1..LEVELS
Threads == 0..LEVELS
(* --algorithm TimeLimiter
variables
  pending = [t \in Threads |-> FALSE],     \* asynchronous exception pending for thread t
  wstate  = [c \in Calls |-> "idle"],      \* idle | running | done_ok | done_exc | done_owntimeout | killed
  alive   = [c \in Calls |-> FALSE],       \* the worker THREAD of call c exists (it outlives the function a little)
  expired = [c \in Calls |-> FALSE],       \* the timed get() of call c has run out
  sawExpiry = [c \in Calls |-> FALSE],     \* the caller observed the expiry (took the timeout branch)
  outcome = [c \in Calls |-> "none"],      \* none | value | own_exc | timeout | interrupted
  returned = [c \in Calls |-> FALSE],
  trace = <<>>;                            \* history of steps (for behaviour generation only)

define
  Finished(c) == wstate[c] \in {"done_ok", "done_exc", "done_owntimeout", "killed"}
  WorkerRunning(c) == wstate[c] = "running"
  \* S1: value / own exception only if the function completed that way; a timeout only if the expiry was observed
  OutcomeCorrect == \A c \in Calls : returned[c] =>
        /\ (outcome[c] = "value" => wstate[c] = "done_ok")
        /\ (outcome[c] = "own_exc" => wstate[c] \in {"done_exc", "done_owntimeout"})
        /\ (outcome[c] = "timeout" => sawExpiry[c])
  \* S2: when call c has returned to its caller, its worker is not executing the function any more
  NoneRunningAfterReturn == \A c \in Calls : returned[c] => ~WorkerRunning(c)
  \* S3: the top-level caller never has an asynchronous exception pending
  CallerNeverInterrupted == ~pending[0]
  \* S4: once the outermost call has returned nothing of it is left that could affect a later call
  \* (an exception still pending on a worker thread that has ended dies with that thread)
  NothingLeftBehind == returned[1] => ~pending[0] /\ (\A c \in Calls : ~WorkerRunning(c))
end define;

macro log(s) begin trace := Append(trace, <<self, s>>); end macro;

\* thread t acting as the CALLER of call t+1
fair process caller \in {t \in Threads : t < LEVELS}
variables cid = self + 1;
begin
 Submit:   \* a worker thread starts calling only once its own call has been submitted by its caller
           await IF self = 0 THEN TRUE ELSE wstate[self] = "running";
           wstate[cid] := "running"; alive[cid] := TRUE; log("Submit");
 Wait:     \* one blocking native call: returns when the worker is done or the timer expired; an asynchronous
           \* exception aimed at this thread surfaces only when the call returns
           await Finished(cid) \/ expired[cid];
           if pending[self] then
              pending[self] := FALSE; outcome[cid] := "interrupted"; log("WaitInterrupted");
              if JoinOnExceptionPath then goto CheckAlive; else goto Return; end if;
           elsif wstate[cid] = "done_ok" then outcome[cid] := "value"; log("WaitValue"); goto Return;
           elsif wstate[cid] = "done_exc" then outcome[cid] := "own_exc"; log("WaitOwnExc"); goto Return;
           elsif wstate[cid] = "done_owntimeout" then
              outcome[cid] := IF OwnTimeoutDistinct THEN "own_exc" ELSE "timeout"; log("WaitOwnTimeout"); goto Return;
           else outcome[cid] := "timeout"; sawExpiry[cid] := TRUE; log("WaitTimedOut");
           end if;
 ExitPool: if pending[self] then
              pending[self] := FALSE; outcome[cid] := "interrupted"; log("ExitPoolInterrupted");
              if JoinOnExceptionPath then goto CheckAlive; else goto Return; end if;
           else log("ExitPool");
           end if;
 CheckAlive:
           \* thread.is_alive(): the thread, not the function -- an idle worker that has finished may still be alive
           if alive[cid] then
 Inject:      pending[cid] := TRUE; log("Inject");
 Join:        await ~alive[cid]; log("Join");
           else log("NotAlive");
           end if;
 Return:   returned[cid] := TRUE; log("Return");
           \* if this thread is itself a worker (self >= 1) its function (= this call) has ended
           if self >= 1 then
              wstate[self] := IF outcome[cid] = "value" THEN "done_ok" ELSE "done_exc";
              alive[self] := FALSE;
           end if;
end process;

\* the innermost worker runs the user function
fair process userfn \in {LEVELS + 100}
begin
 Begin:  await wstate[LEVELS] = "running"; log("Begin");
 Body:   either wstate[LEVELS] := "done_ok"; log("FinishOk");
         or     wstate[LEVELS] := "done_exc"; log("FinishExc");
         or     wstate[LEVELS] := "done_owntimeout"; log("FinishOwnTimeout");
         or     await pending[LEVELS]; pending[LEVELS] := FALSE;
                either wstate[LEVELS] := "killed"; log("Die");      \* dies from the injected exception
                or     log("Swallow");                              \* swallows it once and goes on
                end either;
                if wstate[LEVELS] = "running" then goto Body; end if;
         end either;
 Exit:   \* the pool's worker thread ends (after the function, once the pool has been told to terminate)
         alive[LEVELS] := FALSE; log("Exit");
end process;

fair process timer \in {200 + c : c \in Calls}
begin
 Tick: await wstate[self-200] # "idle";
       either expired[self-200] := TRUE; log("Expire"); or skip; end either;
end process;
end algorithm; *)
\* BEGIN TRANSLATION (chksum(pcal) = "e03eee8c" /\ chksum(tla) = "2222044d")
VARIABLES pc, pending, wstate, alive, expired, sawExpiry, outcome, returned, 
          trace

(* define statement *)
Finished(c) == wstate[c] \in {"done_ok", "done_exc", "done_owntimeout", "killed"}
WorkerRunning(c) == wstate[c] = "running"

OutcomeCorrect == \A c \in Calls : returned[c] =>
      /\ (outcome[c] = "value" => wstate[c] = "done_ok")
      /\ (outcome[c] = "own_exc" => wstate[c] \in {"done_exc", "done_owntimeout"})
      /\ (outcome[c] = "timeout" => sawExpiry[c])

NoneRunningAfterReturn == \A c \in Calls : returned[c] => ~WorkerRunning(c)

CallerNeverInterrupted == ~pending[0]


NothingLeftBehind == returned[1] => ~pending[0] /\ (\A c \in Calls : ~WorkerRunning(c))

VARIABLE cid

vars == << pc, pending, wstate, alive, expired, sawExpiry, outcome, returned, 
           trace, cid >>

ProcSet == ({t \in Threads : t < LEVELS}) \cup ({LEVELS + 100}) \cup ({200 + c : c \in Calls})

Init == (* Global variables *)
        /\ pending = [t \in Threads |-> FALSE]
        /\ wstate = [c \in Calls |-> "idle"]
        /\ alive = [c \in Calls |-> FALSE]
        /\ expired = [c \in Calls |-> FALSE]
        /\ sawExpiry = [c \in Calls |-> FALSE]
        /\ outcome = [c \in Calls |-> "none"]
        /\ returned = [c \in Calls |-> FALSE]
        /\ trace = <<>>
        (* Process caller *)
        /\ cid = [self \in {t \in Threads : t < LEVELS} |-> self + 1]
        /\ pc = [self \in ProcSet |-> CASE self \in {t \in Threads : t < LEVELS} -> "Submit"
                                        [] self \in {LEVELS + 100} -> "Begin"
                                        [] self \in {200 + c : c \in Calls} -> "Tick"]

Submit(self) == /\ pc[self] = "Submit"
                /\ IF self = 0 THEN TRUE ELSE wstate[self] = "running"
                /\ wstate' = [wstate EXCEPT ![cid[self]] = "running"]
                /\ alive' = [alive EXCEPT ![cid[self]] = TRUE]
                /\ trace' = Append(trace, <<self, "Submit">>)
                /\ pc' = [pc EXCEPT ![self] = "Wait"]
                /\ UNCHANGED << pending, expired, sawExpiry, outcome, returned, 
                                cid >>

Wait(self) == /\ pc[self] = "Wait"
              /\ Finished(cid[self]) \/ expired[cid[self]]
              /\ IF pending[self]
                    THEN /\ pending' = [pending EXCEPT ![self] = FALSE]
                         /\ outcome' = [outcome EXCEPT ![cid[self]] = "interrupted"]
                         /\ trace' = Append(trace, <<self, "WaitInterrupted">>)
                         /\ IF JoinOnExceptionPath
                               THEN /\ pc' = [pc EXCEPT ![self] = "CheckAlive"]
                               ELSE /\ pc' = [pc EXCEPT ![self] = "Return"]
                         /\ UNCHANGED sawExpiry
                    ELSE /\ IF wstate[cid[self]] = "done_ok"
                               THEN /\ outcome' = [outcome EXCEPT ![cid[self]] = "value"]
                                    /\ trace' = Append(trace, <<self, "WaitValue">>)
                                    /\ pc' = [pc EXCEPT ![self] = "Return"]
                                    /\ UNCHANGED sawExpiry
                               ELSE /\ IF wstate[cid[self]] = "done_exc"
                                          THEN /\ outcome' = [outcome EXCEPT ![cid[self]] = "own_exc"]
                                               /\ trace' = Append(trace, <<self, "WaitOwnExc">>)
                                               /\ pc' = [pc EXCEPT ![self] = "Return"]
                                               /\ UNCHANGED sawExpiry
                                          ELSE /\ IF wstate[cid[self]] = "done_owntimeout"
                                                     THEN /\ outcome' = [outcome EXCEPT ![cid[self]] = IF OwnTimeoutDistinct THEN "own_exc" ELSE "timeout"]
                                                          /\ trace' = Append(trace, <<self, "WaitOwnTimeout">>)
                                                          /\ pc' = [pc EXCEPT ![self] = "Return"]
                                                          /\ UNCHANGED sawExpiry
                                                     ELSE /\ outcome' = [outcome EXCEPT ![cid[self]] = "timeout"]
                                                          /\ sawExpiry' = [sawExpiry EXCEPT ![cid[self]] = TRUE]
                                                          /\ trace' = Append(trace, <<self, "WaitTimedOut">>)
                                                          /\ pc' = [pc EXCEPT ![self] = "ExitPool"]
                         /\ UNCHANGED pending
              /\ UNCHANGED << wstate, alive, expired, returned, cid >>

ExitPool(self) == /\ pc[self] = "ExitPool"
                  /\ IF pending[self]
                        THEN /\ pending' = [pending EXCEPT ![self] = FALSE]
                             /\ outcome' = [outcome EXCEPT ![cid[self]] = "interrupted"]
                             /\ trace' = Append(trace, <<self, "ExitPoolInterrupted">>)
                             /\ IF JoinOnExceptionPath
                                   THEN /\ pc' = [pc EXCEPT ![self] = "CheckAlive"]
                                   ELSE /\ pc' = [pc EXCEPT ![self] = "Return"]
                        ELSE /\ trace' = Append(trace, <<self, "ExitPool">>)
                             /\ pc' = [pc EXCEPT ![self] = "CheckAlive"]
                             /\ UNCHANGED << pending, outcome >>
                  /\ UNCHANGED << wstate, alive, expired, sawExpiry, returned, 
                                  cid >>

CheckAlive(self) == /\ pc[self] = "CheckAlive"
                    /\ IF alive[cid[self]]
                          THEN /\ pc' = [pc EXCEPT ![self] = "Inject"]
                               /\ trace' = trace
                          ELSE /\ trace' = Append(trace, <<self, "NotAlive">>)
                               /\ pc' = [pc EXCEPT ![self] = "Return"]
                    /\ UNCHANGED << pending, wstate, alive, expired, sawExpiry, 
                                    outcome, returned, cid >>

Inject(self) == /\ pc[self] = "Inject"
                /\ pending' = [pending EXCEPT ![cid[self]] = TRUE]
                /\ trace' = Append(trace, <<self, "Inject">>)
                /\ pc' = [pc EXCEPT ![self] = "Join"]
                /\ UNCHANGED << wstate, alive, expired, sawExpiry, outcome, 
                                returned, cid >>

Join(self) == /\ pc[self] = "Join"
              /\ ~alive[cid[self]]
              /\ trace' = Append(trace, <<self, "Join">>)
              /\ pc' = [pc EXCEPT ![self] = "Return"]
              /\ UNCHANGED << pending, wstate, alive, expired, sawExpiry, 
                              outcome, returned, cid >>

Return(self) == /\ pc[self] = "Return"
                /\ returned' = [returned EXCEPT ![cid[self]] = TRUE]
                /\ trace' = Append(trace, <<self, "Return">>)
                /\ IF self >= 1
                      THEN /\ wstate' = [wstate EXCEPT ![self] = IF outcome[cid[self]] = "value" THEN "done_ok" ELSE "done_exc"]
                           /\ alive' = [alive EXCEPT ![self] = FALSE]
                      ELSE /\ TRUE
                           /\ UNCHANGED << wstate, alive >>
                /\ pc' = [pc EXCEPT ![self] = "Done"]
                /\ UNCHANGED << pending, expired, sawExpiry, outcome, cid >>

caller(self) == Submit(self) \/ Wait(self) \/ ExitPool(self)
                   \/ CheckAlive(self) \/ Inject(self) \/ Join(self)
                   \/ Return(self)

Begin(self) == /\ pc[self] = "Begin"
               /\ wstate[LEVELS] = "running"
               /\ trace' = Append(trace, <<self, "Begin">>)
               /\ pc' = [pc EXCEPT ![self] = "Body"]
               /\ UNCHANGED << pending, wstate, alive, expired, sawExpiry, 
                               outcome, returned, cid >>

Body(self) == /\ pc[self] = "Body"
              /\ \/ /\ wstate' = [wstate EXCEPT ![LEVELS] = "done_ok"]
                    /\ trace' = Append(trace, <<self, "FinishOk">>)
                    /\ pc' = [pc EXCEPT ![self] = "Exit"]
                    /\ UNCHANGED pending
                 \/ /\ wstate' = [wstate EXCEPT ![LEVELS] = "done_exc"]
                    /\ trace' = Append(trace, <<self, "FinishExc">>)
                    /\ pc' = [pc EXCEPT ![self] = "Exit"]
                    /\ UNCHANGED pending
                 \/ /\ wstate' = [wstate EXCEPT ![LEVELS] = "done_owntimeout"]
                    /\ trace' = Append(trace, <<self, "FinishOwnTimeout">>)
                    /\ pc' = [pc EXCEPT ![self] = "Exit"]
                    /\ UNCHANGED pending
                 \/ /\ pending[LEVELS]
                    /\ pending' = [pending EXCEPT ![LEVELS] = FALSE]
                    /\ \/ /\ wstate' = [wstate EXCEPT ![LEVELS] = "killed"]
                          /\ trace' = Append(trace, <<self, "Die">>)
                       \/ /\ trace' = Append(trace, <<self, "Swallow">>)
                          /\ UNCHANGED wstate
                    /\ IF wstate'[LEVELS] = "running"
                          THEN /\ pc' = [pc EXCEPT ![self] = "Body"]
                          ELSE /\ pc' = [pc EXCEPT ![self] = "Exit"]
              /\ UNCHANGED << alive, expired, sawExpiry, outcome, returned, 
                              cid >>

Exit(self) == /\ pc[self] = "Exit"
              /\ alive' = [alive EXCEPT ![LEVELS] = FALSE]
              /\ trace' = Append(trace, <<self, "Exit">>)
              /\ pc' = [pc EXCEPT ![self] = "Done"]
              /\ UNCHANGED << pending, wstate, expired, sawExpiry, outcome, 
                              returned, cid >>

userfn(self) == Begin(self) \/ Body(self) \/ Exit(self)

Tick(self) == /\ pc[self] = "Tick"
              /\ wstate[self-200] # "idle"
              /\ \/ /\ expired' = [expired EXCEPT ![self-200] = TRUE]
                    /\ trace' = Append(trace, <<self, "Expire">>)
                 \/ /\ TRUE
                    /\ UNCHANGED <<expired, trace>>
              /\ pc' = [pc EXCEPT ![self] = "Done"]
              /\ UNCHANGED << pending, wstate, alive, sawExpiry, outcome, 
                              returned, cid >>

timer(self) == Tick(self)

(* Allow infinite stuttering to prevent deadlock on termination. *)
Terminating == /\ \A self \in ProcSet: pc[self] = "Done"
               /\ UNCHANGED vars

Next == (\E self \in {t \in Threads : t < LEVELS}: caller(self))
           \/ (\E self \in {LEVELS + 100}: userfn(self))
           \/ (\E self \in {200 + c : c \in Calls}: timer(self))
           \/ Terminating

Spec == /\ Init /\ [][Next]_vars
        /\ \A self \in {t \in Threads : t < LEVELS} : WF_vars(caller(self))
        /\ \A self \in {LEVELS + 100} : WF_vars(userfn(self))
        /\ \A self \in {200 + c : c \in Calls} : WF_vars(timer(self))

Termination == <>(\A self \in ProcSet: pc[self] = "Done")

\* END TRANSLATION 
 
 
 
 
 
\* behaviour generation: complete behaviours (every process done) with the outcome of the outermost call
AllDone == \A p \in ProcSet : pc[p] = "Done"
EmitBehaviour == AllDone => PrintT(<<"BEH", trace, outcome[1], wstate[LEVELS]>>)
=============================================================================
