------------------------------ MODULE Mon_Persist ------------------------------
(***************************************************************************)
(* Trace monitor for C08: the Persist action property of DSGResolve.tla    *)
(* evaluated on OBSERVATIONS.  Every event carries the observation of      *)
(* every live object after the operation; an existing object must report   *)
(* exactly what it reported before, except that SetDV(p) may change the    *)
(* stored values of p itself.                                              *)
(***************************************************************************)
EXTENDS Integers, Sequences, FiniteSets, TLC, Json, IOUtils
Traces == JsonDeserialize(IOEnv.TRACE_FILE)
VARIABLES tid, l, fails
vars == <<tid, l, fails>>
T == Traces[tid]
N == Len(T.ev)
Tag(X) == {<<c, l>> : c \in X}

Changed(a, b, ownSetDV) ==
    (IF a.nodes = b.nodes /\ a.der = b.der /\ a.con = b.con /\ a.exc = b.exc /\ a.inc = b.inc /\ a.marker = b.marker
        /\ a.sel_left = b.sel_left /\ a.cc_left = b.cc_left /\ a.ncons = b.ncons THEN {} ELSE {"C08.old_object_graph_changed"})
    \cup (IF a.feasible = b.feasible /\ a.final = b.final THEN {} ELSE {"C08.old_object_status_changed"})
    \cup (IF a.next = b.next /\ a.nextcc = b.nextcc /\ a.offered = b.offered /\ a.ghost = b.ghost THEN {} ELSE {"C08.old_object_choices_changed"})
    \cup (IF a.connsets = b.connsets THEN {} ELSE {"C08.old_object_connection_sets_changed"})
    \cup (IF a.degs = b.degs THEN {} ELSE {"C08.old_object_connector_degrees_changed"})
    \cup (IF a.dvv = b.dvv \/ ownSetDV THEN {} ELSE {"C08.old_object_values_changed"})

StepClauses ==
    LET prev == T.ev[l-1]
        cur == T.ev[l]
    \* (whether a decode may raise - an empty design space - is C01's business and is judged there with the semantics)
    IN (IF cur.err # "" /\ cur.op # "Decode" THEN {"C08.derive_operation_raised"} ELSE {})
       \cup (IF Len(cur.obs) < Len(prev.obs) THEN {"machinery.object_lost"}
             ELSE UNION {Changed(prev.obs[p], cur.obs[p], cur.op = "SetDV" /\ cur.p = p) : p \in DOMAIN prev.obs})

Init == tid \in DOMAIN Traces /\ l = 2 /\ fails = {}
Step == /\ l <= N
        /\ fails' = fails \cup Tag(StepClauses)
        /\ l' = l + 1 /\ UNCHANGED tid
Spec == Init /\ [][Step]_vars
Report == (l = N + 1) => PrintT(<<"VERDICT", T.tid, fails, N>>)
=============================================================================
