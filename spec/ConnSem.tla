------------------------------- MODULE ConnSem -------------------------------
(***************************************************************************)
(* Semantics of a connection problem (docs/theory.md, "Connection          *)
(* Choices"): the valid connection sets between source and target          *)
(* connectors are the integer matrices within the per-pair limits whose    *)
(* row sums / column sums are allowed connection degrees.                  *)
(*                                                                         *)
(* A problem P is a record                                                 *)
(*   src, tgt : sequences of connector specs [dl, dmin, dmax, rep]         *)
(*              (dl = explicit degree list or <<>>; dmax = -1: open-ended) *)
(*   so, to   : degree overrides of an existence pattern, sequences of     *)
(*              <<index, degree list>> (an absent node has <<i, <<0>>>>)   *)
(*   cap      : per-pair limits (matrix, sequence of rows)                 *)
(*   mcp      : explicit limit on parallel connections, 0 = default        *)
(***************************************************************************)
EXTENDS Integers, Sequences, FiniteSets, TLC

CSeqSet(s) == {s[i] : i \in DOMAIN s}

AllowedSpec(nd, d) == IF nd.dl # <<>> THEN d \in CSeqSet(nd.dl)
                      ELSE d >= nd.dmin /\ (nd.dmax < 0 \/ d <= nd.dmax)
HasOverride(ov, i) == \E p \in CSeqSet(ov) : p[1] = i
Override(ov, i) == CSeqSet((CHOOSE p \in CSeqSet(ov) : p[1] = i)[2])
Allowed(nds, ov, i, d) == IF HasOverride(ov, i) THEN d \in Override(ov, i) ELSE AllowedSpec(nds[i], d)
\* finite upper bound of the allowed degrees of node i, or -1 when open-ended
MaxAllowed(nds, ov, i) ==
    IF HasOverride(ov, i) THEN (IF Override(ov, i) = {} THEN 0 ELSE CHOOSE m \in Override(ov, i) : \A d \in Override(ov, i) : d <= m)
    ELSE IF nds[i].dl # <<>> THEN (CHOOSE m \in CSeqSet(nds[i].dl) : \A d \in CSeqSet(nds[i].dl) : d <= m)
    ELSE nds[i].dmax

RECURSIVE SumSeq(_)
SumSeq(s) == IF s = <<>> THEN 0 ELSE Head(s) + SumSeq(Tail(s))
RowSum(m, i) == SumSeq(m[i])
ColSum(m, j) == SumSeq([i \in DOMAIN m |-> m[i][j]])

RECURSIVE RowsUpTo(_, _)
RowsUpTo(capRow, j) == IF j = 0 THEN {<<>>} ELSE {Append(r, v) : r \in RowsUpTo(capRow, j-1), v \in 0..capRow[j]}

NS(P) == Len(P.src)
NT(P) == Len(P.tgt)
RowSet(P, i) == {r \in RowsUpTo(P.cap[i], NT(P)) : Allowed(P.src, P.so, i, SumSeq(r))}
ColNotOver(P, m) == \A j \in 1..NT(P) : LET mx == MaxAllowed(P.tgt, P.to, j) IN mx < 0 \/ ColSum(m, j) <= mx

RECURSIVE Mats(_, _)
Mats(P, i) == IF i = 0 THEN {<<>>}
              ELSE {m \in {Append(m0, r) : m0 \in Mats(P, i-1), r \in RowSet(P, i)} : ColNotOver(P, m)}

ValidMatrices(P) == {m \in Mats(P, NS(P)) : \A j \in 1..NT(P) : Allowed(P.tgt, P.to, j, ColSum(m, j))}

\* membership without enumeration
IsValidMatrix(P, m) ==
    /\ Len(m) = NS(P) /\ \A i \in 1..NS(P) : Len(m[i]) = NT(P)
    /\ \A i \in 1..NS(P) : \A j \in 1..NT(P) : m[i][j] >= 0 /\ m[i][j] <= P.cap[i][j]
    /\ \A i \in 1..NS(P) : Allowed(P.src, P.so, i, RowSum(m, i))
    /\ \A j \in 1..NT(P) : Allowed(P.tgt, P.to, j, ColSum(m, j))

(***************************************************************************)
(* What the per-pair limits may be (they are logged, not modelled): 0 for  *)
(* excluded pairs and pairs with an absent end; at most 1 when either end  *)
(* forbids parallel connections; at least 1 (2 if both ends are open-ended and allow         *)
(* repetition) for a present, non-excluded pair whose ends accept a        *)
(* connection at all.                                                      *)
(***************************************************************************)
Absent(ov, i) == HasOverride(ov, i) /\ Override(ov, i) = {0}
CapsOK(P, excl) ==
    /\ Len(P.cap) = NS(P) /\ \A i \in 1..NS(P) : Len(P.cap[i]) = NT(P)
    /\ \A i \in 1..NS(P) : \A j \in 1..NT(P) :
         LET c == P.cap[i][j]
             ms == MaxAllowed(P.src, P.so, i)
             mt == MaxAllowed(P.tgt, P.to, j)
         IN /\ c >= 0
            /\ ((<<i, j>> \in excl \/ Absent(P.so, i) \/ Absent(P.to, j)) => c = 0)
            /\ ((~P.src[i].rep \/ ~P.tgt[j].rep) => c <= 1)
            /\ ((<<i, j>> \notin excl /\ ~Absent(P.so, i) /\ ~Absent(P.to, j) /\ ms # 0 /\ mt # 0) => c >= 1)
            /\ (P.mcp > 0 => c <= P.mcp)
            /\ ((P.mcp = 0 /\ <<i, j>> \notin excl /\ ~Absent(P.so, i) /\ ~Absent(P.to, j) /\ P.src[i].rep /\ P.tgt[j].rep /\ ms < 0 /\ mt < 0) => c >= 2)

(***************************************************************************)
(* The documented default for parallel connections (matrix.py,             *)
(* get_max_conn_parallel): the explicit limit if given, otherwise the      *)
(* largest finite connection degree of any connector present in the        *)
(* pattern, but at least 2.  A logged per-pair limit below                 *)
(* min(default, what the two ends can take) for a pair that allows         *)
(* repetition would cut valid connection sets off, so the reference set is *)
(* computed in the box RefCap = max(logged limit, that bound).             *)
(***************************************************************************)
SetMax(S) == CHOOSE m \in S : \A x \in S : x <= m
Min2(a, b) == IF a <= b THEN a ELSE b
DefaultPar(P) ==
    IF P.mcp > 0 THEN P.mcp
    ELSE SetMax({2} \cup {MaxAllowed(P.src, P.so, i) : i \in 1..NS(P)} \cup {MaxAllowed(P.tgt, P.to, j) : j \in 1..NT(P)})
RefCap(P, excl) ==
    [i \in 1..NS(P) |-> [j \in 1..NT(P) |->
        LET c == P.cap[i][j]
            ms == MaxAllowed(P.src, P.so, i)
            mt == MaxAllowed(P.tgt, P.to, j)
            dp == DefaultPar(P)
        IN IF <<i, j>> \in excl \/ Absent(P.so, i) \/ Absent(P.to, j) \/ ~P.src[i].rep \/ ~P.tgt[j].rep THEN c
           ELSE IF c >= Min2(dp, Min2(IF ms < 0 THEN dp ELSE ms, IF mt < 0 THEN dp ELSE mt)) THEN c
           ELSE Min2(dp, Min2(IF ms < 0 THEN dp ELSE ms, IF mt < 0 THEN dp ELSE mt))]]
=============================================================================
