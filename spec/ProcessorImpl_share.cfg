SPECIFICATION Spec
CONSTANTS MaskAliased = FALSE  CacheHandsOutSame = TRUE  MaxDepth = 6
INVARIANT Independent
VIEW CoreView
CONSTRAINT Bound
CHECK_DEADLOCK FALSE
