SPECIFICATION Spec
CONSTANTS MaskAliased = TRUE  CacheHandsOutSame = FALSE  MaxDepth = 6
INVARIANT Pure
VIEW CoreView
CONSTRAINT Bound
CHECK_DEADLOCK FALSE
