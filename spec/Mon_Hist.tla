------------------------------- MODULE Mon_Hist -------------------------------
(***************************************************************************)
(* Total trace monitor for processor histories (C05, C15).  A trace is one *)
(* TLC-generated operation sequence (ProcessorImpl.tla) replayed into a    *)
(* real, long-lived GraphProcessor by harness/drive_hist.py, followed by   *)
(* an observation block; after every observing step the same question was  *)
(* put to a freshly built twin processor with the same fixed values.       *)
(* The monitor keeps the SPECIFICATION's fixed map and checks:             *)
(*   C05  long-lived answer = fresh answer; answers independent of the     *)
(*        create flag; handed-out instances are independent objects        *)
(*   C15  the restricted enumeration lies between the two filters of the   *)
(*        unrestricted one; counts; freeing restores; bad fixes rejected   *)
(***************************************************************************)
EXTENDS Integers, Sequences, FiniteSets, TLC, Json, IOUtils

Traces == JsonDeserialize(IOEnv.TRACE_FILE)
VARIABLES tid, l, fixed, memo, everFixed, fails
vars == <<tid, l, fixed, memo, everFixed, fails>>
T == Traces[tid]
P == T.problem
N == Len(T.ev)
Tag(X) == {<<c, l>> : c \in X}
SS(s) == {s[i] : i \in DOMAIN s}
Base == SS(P.rows)
FreeVars(fx) == SelectSeq([i \in 1..P.nv |-> i], LAMBDA v : v \notin DOMAIN fx)
Proj(r, fx) == LET fv == FreeVars(fx) IN [i \in DOMAIN fv |-> r[fv[i]]]
Upper(fx) == {Proj(r, fx) : r \in {q \in Base : \A v \in DOMAIN fx : q[v] = fx[v] \/ q[v] = -1}}
Lower(fx) == {Proj(r, fx) : r \in {q \in Base : \A v \in DOMAIN fx : q[v] = fx[v]}}
RECURSIVE ProdFree(_, _)
ProdFree(fv, i) == IF i > Len(fv) THEN 1 ELSE P.nopts[fv[i]] * ProdFree(fv, i+1)

Answer(o) == [err |-> o.err, rx |-> o.rx, ract |-> o.ract, hasinst |-> o.hasinst,
              nodes |-> SS(o.inst.nodes), der |-> SS(o.inst.der), con |-> o.inst.con, dvv |-> SS(o.inst.dvv),
              feasible |-> o.inst.feasible, final |-> o.inst.final]

DecodeClauses(e) ==
    (IF Answer(e.long) = Answer(e.fresh) THEN {} ELSE {"C05.history_dependent"})
    \* C15: after fix/free operations the processor describes exactly the (restricted or restored) problem a fresh one does
    \cup (IF everFixed /\ Answer(e.long) # Answer(e.fresh) THEN {"C15.decode_differs_from_fresh_problem_after_fix_or_free"} ELSE {})
    \cup (IF e.long.same_object \/ e.long.foreign THEN {"C05.shared_instance"} ELSE {})
    \cup (IF \E m \in memo : m[1] = fixed /\ m[2] = e.x /\ m[3] # <<e.long.err, e.long.rx, e.long.ract>>
          THEN {"C05.create_flag_or_repetition_dependent"} ELSE {})
    \* C15: what a decode returns under fixed variables is a design of the restricted problem
    \cup (IF fixed # <<>> /\ e.long.err = "" /\ Len(e.long.rx) = Len(FreeVars(fixed)) /\ Len(e.long.ract) = Len(e.long.rx)
             /\ [i \in DOMAIN e.long.rx |-> IF e.long.ract[i] THEN e.long.rx[i] ELSE -1] \notin Upper(fixed)
          THEN {"C15.decode_outside_restricted_problem"} ELSE {})

EnumClauses(e) ==
    LET R == SS(e.rows) IN
    (IF e.err # "" THEN {"C15.enumeration_raised"} ELSE {})
    \cup (IF SS(e.rows) = SS(e.frows) /\ e.nvalid = e.fnvalid /\ e.ndecl = e.fndecl THEN {} ELSE {"C05.enumeration_history_dependent"})
    \cup (IF T.enc # "complete" \/ e.err # "" THEN {}
          ELSE (IF R \subseteq Upper(fixed) THEN {} ELSE {"C15.restricted_design_not_in_original"})
               \cup (IF Lower(fixed) \subseteq R THEN {} ELSE {"C15.original_design_missing"})
               \cup (IF Cardinality(R) = Len(e.rows) THEN {} ELSE {"C15.duplicate_design"})
               \cup (IF e.nvalid = Len(e.rows) THEN {} ELSE {"C15.count_disagrees"})
               \cup (IF e.ndecl = ProdFree(FreeVars(fixed), 1) THEN {} ELSE {"C15.declared_size_wrong"})
               \cup (IF fixed # <<>> \/ R = Base THEN {} ELSE {"C15.free_does_not_restore"}))

ValidFix(e) == e.v \in SS(P.fixable) /\ e.val >= 0 /\ e.val < P.nopts[e.v]
ListedOK(e, fx) == SS(e.listed) = {e.allnames[v] : v \in SS(FreeVars(fx))} /\ Len(e.listed) = Len(FreeVars(fx))

Init == tid \in DOMAIN Traces /\ l = 1 /\ fixed = <<>> /\ memo = {} /\ everFixed = FALSE /\ fails = {}
Step == /\ l <= N
        /\ LET e == T.ev[l] IN
           CASE e.e = "Decode" ->
                  /\ fails' = fails \cup Tag(DecodeClauses(e))
                  /\ memo' = memo \cup {<<fixed, e.x, <<e.long.err, e.long.rx, e.long.ract>>>>}
                  /\ UNCHANGED fixed
             [] e.e \in {"Enumerate", "Stats"} -> fails' = fails \cup Tag(EnumClauses(e)) /\ UNCHANGED <<fixed, memo>>
             [] e.e = "Fix" ->
                  LET fx2 == IF e.err = "" THEN (e.v :> e.val) @@ fixed ELSE fixed IN
                  /\ fails' = fails \cup Tag((IF e.err # "" /\ ValidFix(e) /\ e.v \notin DOMAIN fixed THEN {"C15.valid_fix_rejected"} ELSE {})
                                             \cup (IF e.err = "" /\ ~ValidFix(e) THEN {"C15.bad_fix_accepted"} ELSE {})
                                             \cup (IF ListedOK(e, fx2) THEN {} ELSE {"C15.fixed_variable_still_listed"}))
                  /\ fixed' = fx2 /\ UNCHANGED memo
             [] e.e = "Free" ->
                  LET fx2 == [w \in DOMAIN fixed \ {e.v} |-> fixed[w]] IN
                  /\ fails' = fails \cup Tag((IF e.err # "" THEN {"C15.free_raised"} ELSE {})
                                             \cup (IF ListedOK(e, fx2) THEN {} ELSE {"C15.freed_variable_not_listed"}))
                  /\ fixed' = fx2 /\ UNCHANGED memo
             [] e.e = "BadFix" -> fails' = fails \cup Tag(IF e.err = "" THEN {"C15.bad_fix_accepted"} ELSE {}) /\ UNCHANGED <<fixed, memo>>
             [] OTHER -> UNCHANGED <<fixed, memo, fails>>
        /\ everFixed' = (everFixed \/ T.ev[l].e = "Fix")
        /\ l' = l + 1 /\ UNCHANGED tid
Spec == Init /\ [][Step]_vars
Report == (l = N + 1) => PrintT(<<"VERDICT", T.tid, fails, Len(T.hist)>>)
=============================================================================
