------------------------------- MODULE Metrics -------------------------------
(***************************************************************************)
(* Classification rules for metric nodes (C17).  A metric node record has  *)
(* mdir (-1 / 0 = none / 1), hasref, ref, mtype (auto | none | obj | con). *)
(* "Exists in every architecture" is semantic (EveryArch); the nodes the   *)
(* start nodes derive without passing a choice (DefPerm) are certainly     *)
(* permanent.  Between the two (e.g. below a forced single-option choice)  *)
(* the property does not say which way the implementation must decide, so  *)
(* the rules come as MUST / MAY pairs.                                     *)
(***************************************************************************)
EXTENDS DSGSem
MetIds(g) == {i \in NodeIds(g) : Kind(g, i) = "met"}
DefPerm(g) == Reach(g, NoSel(g))
EveryArch(g, adm) == {n \in NodeIds(g) : \A A \in adm : n \in A.nodes}
Visible(g) == Potential(g, NoSel(g))
Usable(g, m) == m \in Visible(g) /\ g.nodes[m].mdir # 0 /\ g.nodes[m].mtype # "none"
MustObj(g, m) == Usable(g, m) /\ m \in DefPerm(g) /\ (~g.nodes[m].hasref \/ g.nodes[m].mtype = "obj")
MayObj(g, adm, m) == Usable(g, m) /\ m \in EveryArch(g, adm) /\ (~g.nodes[m].hasref \/ g.nodes[m].mtype # "con")
\* (a metric node that is part of no admissible architecture at all may have been removed already)
InSomeArch(adm, m) == \E A \in adm : m \in A.nodes
MustCon(g, adm, m) == Usable(g, m) /\ InSomeArch(adm, m) /\ g.nodes[m].hasref /\ (m \notin EveryArch(g, adm) \/ g.nodes[m].mtype = "con")
MayCon(g, m) == Usable(g, m) /\ g.nodes[m].hasref /\ ~(g.nodes[m].mtype = "obj" /\ m \in DefPerm(g))
IsAmbiguous(g, m) == Usable(g, m) /\ g.nodes[m].hasref /\ g.nodes[m].mtype = "auto"
MustRaise(g) == \E m \in MetIds(g) : IsAmbiguous(g, m) /\ m \in DefPerm(g)
MayRaise(g, adm) == \E m \in MetIds(g) : IsAmbiguous(g, m) /\ m \in EveryArch(g, adm)
=============================================================================
