----------------------------- MODULE Mon_Metrics -----------------------------
(* Trace monitor for C17 (harness/drive_metrics.py).  NaN travels as -999999. *)
EXTENDS Metrics, Json, IOUtils
Traces == JsonDeserialize(IOEnv.TRACE_FILE)
VARIABLES tid, l, fails
vars == <<tid, l, fails>>
T == Traces[tid]
G == T.g
N == Len(T.ev)
M == T.ev[1]
NaN == -999999
Tag(X) == {<<c, l>> : c \in X}
Given(e, m) == IF \E p \in SeqSet(e.given) : p[1] = m THEN (CHOOSE p \in SeqSet(e.given) : p[1] = m)[2] ELSE NaN

Adm == SelAdmissible(G)
MetricsClauses(e) ==
    IF e.err # "" THEN (IF MayRaise(G, Adm) \/ Adm = {} THEN {} ELSE {"C17.classification_raised"})
    ELSE LET O == SeqSet(e.objectives)
             C == SeqSet(e.constraints)
         IN (IF MustRaise(G) THEN {"C17.ambiguous_metric_not_rejected"} ELSE {})
            \cup (IF \A m \in O : m \in MetIds(G) /\ MayObj(G, Adm, m) THEN {}
                  ELSE {IF \E m \in O : m \in MetIds(G) /\ (G.nodes[m].mdir = 0 \/ m \notin EveryArch(G, Adm))
                        THEN "C17.objective_without_direction_or_not_permanent" ELSE "C17.unexpected_objective"})
            \cup (IF \A m \in MetIds(G) : MustObj(G, m) => m \in O THEN {} ELSE {"C17.objective_missing"})
            \cup (IF \A m \in C : m \in MetIds(G) /\ MayCon(G, m) THEN {}
                  ELSE {IF \E m \in C : m \in MetIds(G) /\ (~G.nodes[m].hasref \/ G.nodes[m].mdir = 0)
                        THEN "C17.constraint_without_reference_or_direction" ELSE "C17.unexpected_constraint"})
            \cup (IF \A m \in MetIds(G) : MustCon(G, Adm, m) => m \in C THEN {} ELSE {"C17.constraint_missing"})
            \cup (IF \E m \in O \cup C : m \in MetIds(G) /\ G.nodes[m].mtype = "none" THEN {"C17.none_role_used"} ELSE {})
            \cup (IF O \cap C = {} /\ Cardinality(O) = Len(e.objectives) /\ Cardinality(C) = Len(e.constraints) THEN {} ELSE {"C17.metric_listed_twice"})
            \cup (IF e.objectives = e.objectives2 /\ e.constraints = e.constraints2 THEN {} ELSE {"C17.order_unstable"})
            \cup (IF \A i \in DOMAIN e.constraints : e.con_refs[i] = G.nodes[e.constraints[i]].ref THEN {} ELSE {"C17.constraint_reference_wrong"})

EvalClauses(e) ==
    IF e.err # "" THEN {"C17.evaluate_raised"}
    ELSE (IF Len(e.obj) = Len(M.objectives) /\ Len(e.con) = Len(M.constraints) THEN {} ELSE {"C17.value_count_wrong"})
         \cup (IF Len(e.obj) # Len(M.objectives) \/ \A i \in DOMAIN e.obj : e.obj[i] = Given(e, M.objectives[i]) THEN {} ELSE {"C17.objective_value_not_from_evaluator"})
         \cup (IF Len(e.con) # Len(M.constraints) \/
                  \A i \in DOMAIN e.con :
                      IF M.constraints[i] \in SeqSet(e.nodes) THEN e.con[i] = Given(e, M.constraints[i])
                      ELSE e.con[i] = G.nodes[M.constraints[i]].ref
               THEN {} ELSE {"C17.constraint_value_wrong"})
         \cup (IF \A p \in SeqSet(e.stored) : p[2] = Given(e, p[1]) THEN {} ELSE {"C17.stored_metric_value_wrong"})
         \* every metric node of the architecture has a stored value after an evaluation (NaN when the evaluator gave none)
         \cup (IF \A m \in MetIds(G) \cap SeqSet(e.nodes) : \E p \in SeqSet(e.stored) : p[1] = m THEN {} ELSE {"C17.metric_value_not_stored"})

Init == tid \in DOMAIN Traces /\ l = 1 /\ fails = {}
Step == /\ l <= N
        /\ fails' = fails \cup Tag(IF T.ev[l].e = "Metrics" THEN MetricsClauses(T.ev[l]) ELSE EvalClauses(T.ev[l]))
        /\ l' = l + 1 /\ UNCHANGED tid
Spec == Init /\ [][Step]_vars
Report == (l = N + 1) => PrintT(<<"VERDICT", T.tid, fails, Cardinality(MetIds(G))>>)
=============================================================================
