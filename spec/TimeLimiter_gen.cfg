SPECIFICATION Spec
CONSTANTS LEVELS = 1  JoinOnExceptionPath = FALSE  OwnTimeoutDistinct = TRUE
INVARIANT EmitBehaviour
INVARIANT OutcomeCorrect
INVARIANT NoneRunningAfterReturn
INVARIANT CallerNeverInterrupted
INVARIANT NothingLeftBehind
CHECK_DEADLOCK FALSE
