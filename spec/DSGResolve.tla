------------------------------ MODULE DSGResolve ------------------------------
(***************************************************************************)
(* The graph layer as a machine over a family of LIVE graph objects that   *)
(* all stem from one design space g (read from JSON).  An object is a      *)
(* value: [sel (partial selection), conn (connection choices applied),     *)
(* dv (a design-variable value has been stored), cons (constrained copy)]. *)
(* Every derive operation allocates a NEW object and leaves all existing   *)
(* ones untouched -- that is the persistence property C08 (Persist).       *)
(* SharedAttrs = TRUE adds what the implementation really shares between   *)
(* objects: the degree list of a grouping connector lives on the node      *)
(* object and holds what the graph constructed LAST computed (grpOwner).   *)
(***************************************************************************)
EXTENDS DSGSem, Json, IOUtils
CONSTANTS MaxObjs, MaxDepth, SharedAttrs

G == JsonDeserialize(IOEnv.GRAPH_FILE)
VARIABLES objs, grpOwner, hist
vars == <<objs, grpOwner, hist>>
\* dec: 0 for objects derived through the graph API, k+1 for the instance a processor decoded for its k-th vector
Obj(s, c, d, k) == [sel |-> s, conn |-> c, dv |-> d, cons |-> k, dec |-> 0]
Ids == DOMAIN objs
SelFinal(o) == Active(G, o.sel) = {}
OpenCc(o) == {k \in CcIds(G) : (\A j \in 0..1 : <<k, j>> \notin o.conn) /\ ConnActive(G, Arch(G, o.sel), k)}
HasDv == \E n \in NodeIds(G) : Kind(G, n) = "dv"
Alloc(o) == /\ Len(objs) < MaxObjs
            /\ objs' = Append(objs, o)
            /\ grpOwner' = Len(objs) + 1          \* the object constructed last owns the shared node attributes
Log(op, p, c, k) == hist' = Append(hist, [op |-> op, p |-> p, c |-> c, k |-> k])

Init == objs = <<Obj(NoSel(G), {}, FALSE, 0)>> /\ grpOwner = 1 /\ hist = <<>>

Copy(p) == Alloc(objs[p]) /\ Log("Copy", p, 0, 0)
TakeSel(p, c, k) == /\ c \in Active(G, objs[p].sel) /\ k \in Opts(G, c)
                    /\ Alloc([objs[p] EXCEPT !.sel = [objs[p].sel EXCEPT ![c] = k]])
                    /\ Log("TakeSel", p, c, k)
\* (the code offers a connection choice whose sources exist as soon as they exist, not only on selection-final objects)
\* j: which of the offered connection sets is applied (0 = the first, 1 = the last one offered)
ApplyConn(p, k, j) == /\ k \in OpenCc(objs[p])
                      /\ Alloc([objs[p] EXCEPT !.conn = objs[p].conn \cup {<<k, j>>}])
                      /\ Log("ApplyConn", p, k, j)
\* the user stores a design-variable value on object p itself (an in-place change of p, of nothing else)
SetDV(p) == /\ HasDv /\ ~objs[p].dv
            /\ objs' = [objs EXCEPT ![p].dv = TRUE] /\ UNCHANGED grpOwner
            /\ Log("SetDV", p, 0, 0)
\* k: 1 = linked pair, 2 = permutation, 3 = unordered non-replacing over the free active choices (the last two can be
\* unsatisfiable, which resolves choices without options on the copy)
ConstrainCopy(p, k) == /\ Cardinality(Active(G, objs[p].sel)) >= 2 /\ objs[p].cons = 0
                       /\ Alloc([objs[p] EXCEPT !.cons = k])
                       /\ Log("ConstrainCopy", p, 0, k)
\* a processor built on the initial object decodes a further instance (all selection choices resolved)
Decode(k) == /\ Alloc([Obj(NoSel(G), {}, FALSE, 0) EXCEPT !.dec = k + 1]) /\ Log("Decode", 1, 0, k)

Next == \E p \in Ids :
          \/ Copy(p) \/ SetDV(p) \/ (\E k \in 1..3 : ConstrainCopy(p, k))
          \/ \E c \in ChIds(G) : \E k \in NodeIds(G) : TakeSel(p, c, k)
          \/ \E k \in CcIds(G) : \E j \in 0..1 : ApplyConn(p, k, j)
          \/ (p = 1 /\ \E k \in 0..3 : Decode(k))
Spec == Init /\ [][Next]_vars
Bound == Len(hist) <= MaxDepth

\* ---- C08 ------------------------------------------------------------------------------------------------------
\* an operation other than the user's own SetDV on p never changes an existing object
Persist == [][\A p \in Ids : objs'[p] = objs[p] \/ (hist' # hist /\ hist'[Len(hist')].op = "SetDV" /\ hist'[Len(hist')].p = p)]_vars
\* what an object REPORTS for a grouping connector: with shared attributes, the degree list of the owner's graph
GrpMembersPresent(o, n) == Members(G, n) \cap Potential(G, o.sel)
ReportedMembers(p, n) == IF SharedAttrs THEN GrpMembersPresent(objs[grpOwner], n) ELSE GrpMembersPresent(objs[p], n)
DegreesPersistent == \A p \in Ids : \A n \in GrpIds(G) :
                        (n \in Potential(G, objs[p].sel)) => ReportedMembers(p, n) = GrpMembersPresent(objs[p], n)

CoreView == <<objs, grpOwner>>
EmitHist == PrintT(<<"HIST", CoreView, hist>>)
=============================================================================
