------------------------------ MODULE Mon_Select ------------------------------
(***************************************************************************)
(* Monitor for encoder selection under cache histories (C12).  A record is *)
(* either one settings description with its selections                     *)
(*   sel[i] = [hist: cold | warm | other_process, err, desc, ...]          *)
(* (desc = encoder, declared variables, whole decode mapping) and the      *)
(* number of valid matrices per existence pattern as computed by TLC from  *)
(* ConnSem in the coding monitor, or a pair of settings that differ in one *)
(* field of the cache key together with their pattern problems.            *)
(***************************************************************************)
EXTENDS ConnSem, Json, IOUtils
Recs == JsonDeserialize(IOEnv.TRACE_FILE)
VARIABLES tid, done
vars == <<tid, done>>
R == Recs[tid]
SS(s) == {s[i] : i \in DOMAIN s}
Feasible(r) == \E i \in DOMAIN r.valid_counts : r.valid_counts[i] >= 1
Degenerate(r) == \A i \in DOMAIN r.valid_counts : r.valid_counts[i] <= 1
Cold(r) == r.sel[CHOOSE i \in DOMAIN r.sel : r.sel[i].hist = "cold"]

SelClauses(r) ==
    UNION {
      LET s == r.sel[i] IN
      (IF s.err # "" /\ Feasible(r) THEN {IF s.hist = "other_process" THEN "C12.selection_in_other_process_or_load_raised" ELSE "C12.selection_raised"} ELSE {})
      \* settings without any connection set "yield a coding with no variables": raising is not yielding a coding
      \cup (IF s.err # "" /\ ~Feasible(r) THEN {"C12.degenerate_selection_raised"} ELSE {})
      \cup (IF s.err = "" /\ Degenerate(r) /\ s.desc.ndv # <<>> THEN {"C12.degenerate_settings_have_variables"} ELSE {})
      \cup (IF s.err = "" /\ ~s.matrix_cache_ok THEN {"C12.matrix_cache_differs_from_fresh"} ELSE {})
      \cup (IF s.hist = "warm" /\ s.err = "" /\ Cold(r).err = "" /\ s.desc # Cold(r).desc THEN {"C12.selection_cache_differs"} ELSE {})
      \cup (IF s.hist = "other_process" /\ s.err = "" /\ s.loaded # s.desc THEN {"C12.cache_written_by_other_process_differs"} ELSE {})
      : i \in DOMAIN r.sel}

Prob(src, tgt, mcp, e) == [src |-> src, tgt |-> tgt, so |-> e.so, to |-> e.to, cap |-> e.cap, mcp |-> mcp]
ValidSets(s, ps) == [i \in DOMAIN ps |-> ValidMatrices(Prob(s.src, s.tgt, s.mcp, ps[i]))]
KeyClauses(r) ==
    IF r.err # "" THEN {}
    ELSE IF r.same_key /\ ValidSets(r.a, r.pa) # ValidSets(r.b, r.pb) THEN {"C12.cache_key_collision"} ELSE {}

Clauses(r) == IF r.rkind = "settings" THEN SelClauses(r) ELSE KeyClauses(r)
Init == tid \in DOMAIN Recs /\ done = FALSE
Step == ~done /\ done' = TRUE /\ UNCHANGED tid
Spec == Init /\ [][Step]_vars
Report == done => PrintT(<<"VERDICT", R.tid, {<<c, 1>> : c \in Clauses(R)}>>)
=============================================================================
