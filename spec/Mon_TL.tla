-------------------------------- MODULE Mon_TL --------------------------------
(***************************************************************************)
(* Monitor for executions of the real run_timeout (C19).                   *)
(*  kind "schedule": a complete behaviour of TimeLimiter.tla (LEVELS = 1)  *)
(*     forced onto the implementation by the director of harness/drive_tl; *)
(*     the record carries the behaviour, the outcome the MODEL assigns to  *)
(*     it, the hook points passed, and the facts observed after return.    *)
(*  kind "sweep": an uncontrolled execution (durations around the limit,   *)
(*     raising / swallowing / native-blocking functions, nested calls).    *)
(* S1 outcome, S2 nothing running after return, S3 caller not interrupted, *)
(* S4 a later call is unaffected.                                          *)
(***************************************************************************)
EXTENDS Integers, Sequences, FiniteSets, TLC, Json, IOUtils
Recs == JsonDeserialize(IOEnv.TRACE_FILE)
VARIABLES tid, done
vars == <<tid, done>>
R == Recs[tid]
SS(s) == {s[i] : i \in DOMAIN s}
Labels(r) == {r.beh[i][2] : i \in DOMAIN r.beh}
Count(r, lab) == Cardinality({i \in DOMAIN r.beh : r.beh[i][2] = lab})

\* the caller's hook points in program order (a prefix-closed chain with two optional segments)
HooksOK(r) ==
    LET h == r.hooks IN
    /\ Len(h) >= 1 /\ h[1] = "tl.submit"
    /\ ("WaitTimedOut" \in Labels(r)) = ("tl.timed_out" \in SS(h))
    /\ ("Inject" \in Labels(r)) = ("tl.inject" \in SS(h))
    /\ ("tl.timed_out" \in SS(h)) => (h[Len(h)] = "tl.raise" /\ "tl.pool_exited" \in SS(h))
    /\ ("tl.inject" \in SS(h)) => ("tl.join" \in SS(h))

Common(r) ==
    (IF r.running_after THEN {"C19.worker_running_after_return"} ELSE {})
    \cup (IF r.caller_interrupted \/ r.outcome = "interrupted" THEN {"C19.caller_received_interrupt"} ELSE {})
    \cup (IF r.later_ok THEN {} ELSE {"C19.later_call_affected"})

ScheduleClauses(r) ==
    \* an execution that left the forced behaviour (a step order the model does not have) is not judged against the
    \* model's outcome - it is counted in the evidence - but what the property says about every call still applies
    IF r.unrealised # "" THEN Common(r)
    ELSE Common(r)
         \cup (IF r.outcome = r.expected THEN {} ELSE {"C19.wrong_outcome"})
         \cup (IF r.outcome = "value" /\ ~r.value_ok THEN {"C19.wrong_value"} ELSE {})
         \cup (IF HooksOK(r) THEN {} ELSE {"C19.hook_order_not_a_behaviour"})
         \cup (IF Len(r.delivered) = Count(r, "Die") + Count(r, "Swallow") THEN {} ELSE {"C19.interrupt_delivery_count"})

\* uncontrolled: durations in ms; generous margins around the limit where either outcome is allowed
SweepClauses(r) ==
    \* finished well in time - by the MEASURED end of the function body, not by its nominal duration (machine load)
    LET early == r.ended_ms >= 0 /\ 2 * r.ended_ms < r.limit_ms
        late == r.dur_ms > 2 * r.limit_ms + 100       \* certainly not in time
        okOutcome == IF r.kind \in {"sleep", "native", "swallow", "retnone", "retzero", "retempty"} THEN "value" ELSE "own_exc"
    IN Common(r)
       \cup (IF r.kind = "nested" THEN {}
             ELSE (IF early /\ r.outcome # okOutcome THEN {"C19.wrong_outcome"} ELSE {})
                  \cup (IF late /\ r.outcome # "timeout" THEN {"C19.wrong_outcome"} ELSE {})
                  \cup (IF r.outcome \in {okOutcome, "timeout"} THEN {} ELSE {"C19.wrong_outcome"}))
       \cup (IF r.kind = "nested" /\ r.outcome \notin {"value", "timeout"} THEN {"C19.wrong_outcome"} ELSE {})
       \* a nested call enforces its OWN limit: the function certainly overruns the inner limit and the outer one is far away
       \cup (IF r.kind = "nested" /\ r.dur_ms > 2 * r.inner_ms + 100 /\ r.limit_ms > 2 * r.dur_ms
                /\ (r.outcome # "timeout" \/ r.elapsed_ms > r.dur_ms - 50)
             THEN {"C19.nested_call_ignores_its_own_limit"} ELSE {})

Clauses(r) == IF r.rkind = "schedule" THEN ScheduleClauses(r) ELSE SweepClauses(r)

Init == tid \in DOMAIN Recs /\ done = FALSE
Step == ~done /\ done' = TRUE /\ UNCHANGED tid
Spec == Init /\ [][Step]_vars
Report == done => PrintT(<<"VERDICT", R.tid, {<<c, 1>> : c \in Clauses(R)}>>)
=============================================================================
