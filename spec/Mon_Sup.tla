------------------------------- MODULE Mon_Sup -------------------------------
(***************************************************************************)
(* Supplementary graphs (C20).  SupExpected: for every final feasible      *)
(* source architecture the supplementary choices are taken, in mapping     *)
(* order, with the option the mapping assigns                              *)
(*   option mapping   : to the source's selected option, or to the "None"  *)
(*                      case when the source choice is not active          *)
(*   existence mapping: to the first source node (declaration order) that  *)
(*                      exists, else the "None" case                       *)
(* -- but only for supplementary choices that are active in the            *)
(* supplementary graph itself; the result is the closure of that selection.*)
(***************************************************************************)
EXTENDS DSGSem, Json, IOUtils
Traces == JsonDeserialize(IOEnv.TRACE_FILE)
VARIABLES tid, l, fails
vars == <<tid, l, fails>>
T == Traces[tid]
G == T.g               \* source description
S == T.s.g             \* supplementary description
Maps == T.s.maps
N == Len(T.ev)
Tag(X) == {<<c, l>> : c \in X}
Pairs(m) == SeqSet(m.pairs)

SrcSelOf(e, c) == IF \E p \in SeqSet(e.src_sel) : p[1] = c THEN (CHOOSE p \in SeqSet(e.src_sel) : p[1] = c)[2] ELSE 0
\* the option mapping j assigns for the source architecture described by event e
MappedOption(e, j) ==
    LET m == Maps[j] IN
    IF m.kind = "opt" THEN
        (IF Origin(G, m.src) \notin SeqSet(e.src_nodes) THEN m.none
         ELSE LET o == SrcSelOf(e, m.src) IN
              IF \E p \in Pairs(m) : p[1] = o THEN (CHOOSE p \in Pairs(m) : p[1] = o)[2] ELSE -1)
    ELSE LET hits == {i \in DOMAIN m.pairs : m.pairs[i][1] \in SeqSet(e.src_nodes)} IN
         IF hits = {} THEN m.none ELSE m.pairs[CHOOSE i \in hits : \A k \in hits : i <= k][2]

\* apply the mappings in order; a supplementary choice that is not active (its originating node is not confirmed) is skipped
RECURSIVE SupSel(_, _, _)
SupSel(e, j, sel) ==
    IF j > Len(Maps) THEN sel
    ELSE IF j \in Active(S, sel) THEN SupSel(e, j + 1, [sel EXCEPT ![j] = MappedOption(e, j)])
    ELSE SupSel(e, j + 1, sel)
\* mapping order may activate an earlier-numbered choice later: iterate to a fixpoint
RECURSIVE SupFix(_, _)
SupFix(e, sel) == LET s2 == SupSel(e, 1, sel) IN IF s2 = sel THEN sel ELSE SupFix(e, s2)
Expected(e) == SupFix(e, NoSel(S))

BuildClauses(e) ==
    IF e.neg = "" THEN (IF e.err # "" THEN {"C20.valid_mapping_rejected"} ELSE {})
    ELSE (IF e.err = "" THEN {"C20.bad_mapping_not_rejected"} ELSE {})

ResolveClauses(e) ==
    IF e.err # "" THEN {"C20.resolve_raised"}
    ELSE LET x == Expected(e) IN
         (IF e.final /\ e.left = <<>> THEN {} ELSE {"C20.resolved_not_final"})
         \cup (IF \A j \in ChIds(S) : x[j] # -1 THEN {} ELSE {"machinery.unmapped_source_option"})
         \cup (IF SeqSet(e.nodes) = Reach(S, x) THEN {}
               ELSE {IF \E j \in ChIds(S) : x[j] > 0 /\ x[j] \notin SeqSet(e.nodes) THEN "C20.wrong_option" ELSE "C20.resolved_nodes_not_closure"})
         \cup (IF \A j \in ChIds(S) : x[j] > 0 => <<Origin(S, j), x[j]>> \in SeqSet(e.der) THEN {} ELSE {"C20.wrong_option"})
         \cup (IF \A j \in ChIds(S) : \A o \in Opts(S, j) : (<<Origin(S, j), o>> \in SeqSet(e.der) /\ <<Origin(S, j), o>> \notin DerPairs(S)) => o = x[j]
               THEN {} ELSE {"C20.wrong_option"})

Init == tid \in DOMAIN Traces /\ l = 1 /\ fails = {}
Step == /\ l <= N
        /\ LET e == T.ev[l] IN
           fails' = fails \cup Tag(CASE e.e = "Build" -> BuildClauses(e)
                                     [] e.e = "ResolveNonFinal" -> (IF e.err = "" THEN {"C20.non_final_source_not_rejected"} ELSE {})
                                     [] e.e = "Resolve" -> ResolveClauses(e)
                                     [] OTHER -> {})
        /\ l' = l + 1 /\ UNCHANGED tid
Spec == Init /\ [][Step]_vars
Report == (l = N + 1) => PrintT(<<"VERDICT", T.tid, fails, N>>)
=============================================================================
