----------------------------- MODULE Mon_ConnSem -----------------------------
(* Total trace monitor for connection-set enumeration (C09): events recorded by harness/drive_conn.py:drive_matrix *)
EXTENDS ConnSem, Json, IOUtils

Traces == JsonDeserialize(IOEnv.TRACE_FILE)
VARIABLES tid, l, counts, fails
vars == <<tid, l, counts, fails>>
T == Traces[tid]
S == T.s
N == Len(T.ev)
Tag(X) == {<<c, l>> : c \in X}

Excl == {<<p[1] + 1, p[2] + 1>> : p \in CSeqSet(S.excl)}
Logged(e) == [src |-> S.src, tgt |-> S.tgt, so |-> e.so, to |-> e.to, cap |-> e.cap, mcp |-> S.mcp]
\* the reference problem: the logged per-pair limits, raised to the documented default where they are below it
Prob(e) == [Logged(e) EXCEPT !.cap = RefCap(Logged(e), Excl)]

PatClauses(e) ==
    IF e.err # "" THEN {"C09.enumeration_raised"}
    ELSE LET P == Prob(e) IN
         IF ~CapsOK(Logged(e), Excl) THEN {"C09.caps_inconsistent"}
         ELSE LET V == ValidMatrices(P)
                  A == CSeqSet(e.agg)
                  I == CSeqSet(e.iter)
              IN (IF V \subseteq A THEN {} ELSE {"C09.enumeration_missing"})
                 \cup (IF A \subseteq V THEN {} ELSE {"C09.enumeration_extra"})
                 \cup (IF Cardinality(A) = Len(e.agg) THEN {} ELSE {"C09.enumeration_duplicate"})
                 \cup (IF I = V /\ Cardinality(I) = Len(e.iter) THEN {} ELSE {"C09.iteration_differs"})
                 \cup (IF \A k \in DOMAIN e.val : e.val[k].ok = (e.val[k].m \in V) THEN {} ELSE {"C09.validate_disagrees"})

MaxOf(s) == IF s = <<>> THEN 0 ELSE CHOOSE m \in CSeqSet(s) : \A x \in CSeqSet(s) : x <= m
CountClauses(e) ==
    IF e.err # "" THEN {"C09.count_raised"}
    ELSE IF Len(counts) # T.ev[1].npat THEN {}     \* some pattern failed: reported there
    ELSE (IF e.cold_sum = SumSeq(counts) /\ e.cold_max = MaxOf(counts) THEN {} ELSE {"C09.count_without_generating_differs"})
         \cup (IF e.warm_sum = SumSeq(counts) /\ e.warm_max = MaxOf(counts) THEN {} ELSE {"C09.count_after_generating_differs"})

Init == tid \in DOMAIN Traces /\ l = 1 /\ counts = <<>> /\ fails = {}
Step == /\ l <= N
        /\ LET e == T.ev[l] IN
           CASE e.e = "Settings" -> fails' = fails \cup Tag(IF e.err # "" THEN {"C09.settings_rejected"} ELSE {}) /\ UNCHANGED counts
             [] e.e = "Pat" -> /\ fails' = fails \cup Tag(PatClauses(e))
                               /\ counts' = IF e.err = "" /\ CapsOK(Logged(e), Excl) THEN Append(counts, Cardinality(ValidMatrices(Prob(e)))) ELSE counts
             [] e.e = "Count" -> fails' = fails \cup Tag(CountClauses(e)) /\ UNCHANGED counts
             [] OTHER -> fails' = fails \cup Tag({"machinery.unknown_event"}) /\ UNCHANGED counts
        /\ l' = l + 1 /\ UNCHANGED tid
Spec == Init /\ [][Step]_vars
Report == (l = N + 1) => PrintT(<<"VERDICT", T.tid, fails, counts>>)
=============================================================================
