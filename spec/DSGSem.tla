------------------------------- MODULE DSGSem -------------------------------
(***************************************************************************)
(* Constant-level semantics of a design space graph description (gdesc).   *)
(* Written from docs/theory.md, not from the code.  Every other module     *)
(* imports this one; nothing in the Python harness computes any of it.     *)
(*                                                                         *)
(* A description g is the record read from JSON (harness/gd.py):           *)
(*   g.n, g.nodes (seq of node records), g.start, g.der, g.ch, g.inc,      *)
(*   g.cons, g.cc                                                          *)
(* A (partial) selection is a function sel : ChIds(g) -> 0..g.n, where 0   *)
(* means "not taken" and any other value is the node id of the option.     *)
(***************************************************************************)
EXTENDS ConnSem

SeqSet(s) == {s[i] : i \in DOMAIN s}
NodeIds(g) == 1..g.n
ChIds(g) == DOMAIN g.ch
CcIds(g) == DOMAIN g.cc
Opts(g, c) == SeqSet(g.ch[c].opts)
Origin(g, c) == g.ch[c].origin
DerPairs(g) == SeqSet(g.der)
IncPairs(g) == SeqSet(g.inc)
Kind(g, i) == g.nodes[i].t
GrpIds(g) == {i \in NodeIds(g) : Kind(g, i) = "grp"}
Members(g, i) == SeqSet(g.nodes[i].members)
NoSel(g) == [c \in ChIds(g) |-> 0]

(***************************************************************************)
(* Derivation closure.  "A derivation edge asserts that if the source is   *)
(* included then the target is included"; a taken selection choice wires   *)
(* its originating node to the selected option; a grouping connector is    *)
(* derived by each of its member connectors.  An untaken choice blocks.    *)
(***************************************************************************)
ClosureStep(g, sel, S) ==
    S \cup {d[2] : d \in {e \in DerPairs(g) : e[1] \in S}}
      \cup {sel[c] : c \in {cc \in ChIds(g) : Origin(g, cc) \in S /\ sel[cc] # 0}}
      \cup {i \in GrpIds(g) : Members(g, i) \cap S # {}}

RECURSIVE Lfp(_, _, _)
Lfp(g, sel, S) == LET T == ClosureStep(g, sel, S) IN IF T = S THEN S ELSE Lfp(g, sel, T)

Reach(g, sel) == Lfp(g, sel, SeqSet(g.start))          \* = "confirmed" nodes under a partial selection
Active(g, sel) == {c \in ChIds(g) : Origin(g, c) \in Reach(g, sel) /\ sel[c] = 0}

\* nodes that can still be part of an architecture under a partial selection (an untaken choice offers all options)
PotStep(g, sel, S) ==
    ClosureStep(g, sel, S) \cup UNION {Opts(g, c) : c \in {cc \in ChIds(g) : Origin(g, cc) \in S /\ sel[cc] = 0}}
RECURSIVE PotLfp(_, _, _)
PotLfp(g, sel, S) == LET T == PotStep(g, sel, S) IN IF T = S THEN S ELSE PotLfp(g, sel, T)
Potential(g, sel) == PotLfp(g, sel, SeqSet(g.start))

(***************************************************************************)
(* All total option assignments, and the architecture each one denotes.    *)
(***************************************************************************)
RECURSIVE AssignsOver(_, _)
AssignsOver(g, C) ==
    IF C = {} THEN {[c \in {} |-> 0]}
    ELSE LET c == CHOOSE x \in C : \A y \in C : x <= y IN
         {f @@ (c :> o) : f \in AssignsOver(g, C \ {c}), o \in Opts(g, c)}

Arch(g, a) == LET R == Reach(g, a) IN
    [nodes |-> R, sel |-> [c \in ChIds(g) |-> IF Origin(g, c) \in R THEN a[c] ELSE 0]]

IncOK(g, S) == \A p \in IncPairs(g) : ~(p[1] \in S /\ p[2] \in S)

(***************************************************************************)
(* Choice constraints: indices are positions in the declared option list,  *)
(* taken over the members that are active together in the architecture.    *)
(***************************************************************************)
OptIdx(g, c, o) == CHOOSE i \in DOMAIN g.ch[c].opts : g.ch[c].opts[i] = o
ActiveMembers(g, A, k) == SelectSeq(g.cons[k].m, LAMBDA c : A.sel[c] # 0)
ConIdx(g, A, k) == LET am == ActiveMembers(g, A, k) IN [i \in DOMAIN am |-> OptIdx(g, am[i], A.sel[am[i]])]
ConOK(type, ix) ==
    CASE type = "linked"  -> \A i, j \in DOMAIN ix : ix[i] = ix[j]
      [] type = "perm"    -> \A i, j \in DOMAIN ix : i # j => ix[i] # ix[j]
      [] type = "unord"   -> \A i, j \in DOMAIN ix : i < j => ix[i] <= ix[j]
      [] type = "unordnr" -> \A i, j \in DOMAIN ix : i < j => ix[i] < ix[j]
      [] OTHER -> TRUE
ConsOK(g, A) == \A k \in DOMAIN g.cons : Len(g.cons[k].m) < 2 \/ ConOK(g.cons[k].type, ConIdx(g, A, k))

SelAdmissible(g) ==
    {A \in {Arch(g, a) : a \in AssignsOver(g, ChIds(g))} : IncOK(g, A.nodes) /\ ConsOK(g, A)}

Extends(A, sel) == \A c \in DOMAIN sel : sel[c] # 0 => A.sel[c] = sel[c]
ViableIn(adm, g, sel, c) == {o \in Opts(g, c) : \E A \in adm : Extends(A, sel) /\ A.sel[c] = o}
ExtensionExists(adm, sel) == \E A \in adm : Extends(A, sel)

(***************************************************************************)
(* Connection choices (docs/theory.md, "Connection Choices").  A choice k  *)
(* has declared source and target connectors; it is resolved after the     *)
(* selection choices, for the connectors that exist in architecture A.     *)
(* The choice node is connected from its sources, so it exists iff some    *)
(* source exists.  A grouping connector accepts the sums of the allowed    *)
(* degrees of its PRESENT members.  The valid connection sets are the      *)
(* matrices of ConnSem over all declared connectors with absent ones       *)
(* forced to 0 -- one uniform rule that also covers "all sources absent"   *)
(* (present targets must accept 0) and "all targets absent".               *)
(***************************************************************************)
CcSrcSeq(g, k) == g.cc[k].src
CcTgtSeq(g, k) == g.cc[k].tgt
CcSrc(g, k) == SeqSet(g.cc[k].src)
CcTgt(g, k) == SeqSet(g.cc[k].tgt)
ConnActive(g, A, k) == CcSrc(g, k) \cap A.nodes # {}

NodeAllowed(g, n, d) == AllowedSpec(g.nodes[n], d)
OpenEnded(g, n) == g.nodes[n].dl = <<>> /\ g.nodes[n].dmax < 0
MinDeg(g, n) == IF g.nodes[n].dl # <<>> THEN CHOOSE m \in SeqSet(g.nodes[n].dl) : \A x \in SeqSet(g.nodes[n].dl) : m <= x
                ELSE g.nodes[n].dmin
RECURSIVE SumMin(_, _)
SumMin(g, M) == IF M = {} THEN 0 ELSE LET m == CHOOSE x \in M : TRUE IN MinDeg(g, m) + SumMin(g, M \ {m})
\* sums of one allowed degree per member, bounded by hi
RECURSIVE MemberSums(_, _, _)
MemberSums(g, M, hi) ==
    IF M = {} THEN {0}
    ELSE LET m == CHOOSE x \in M : TRUE IN
         {a + b : a \in {d \in 0..hi : NodeAllowed(g, m, d)}, b \in MemberSums(g, M \ {m}, hi)} \cap (0..hi)
\* degree d allowed for connector n of a connection choice in architecture A (d <= hi)
ConnAllowed(g, A, n, d, hi) ==
    IF n \notin A.nodes THEN d = 0
    ELSE IF Kind(g, n) = "grp" THEN
         LET M == Members(g, n) \cap A.nodes IN
         IF \E m \in M : OpenEnded(g, m) THEN d >= SumMin(g, M) ELSE d \in MemberSums(g, M, hi)
    ELSE NodeAllowed(g, n, d)
ConnRep(g, A, n) == IF Kind(g, n) = "grp" THEN \E m \in Members(g, n) \cap A.nodes : g.nodes[m].rep ELSE g.nodes[n].rep

RECURSIVE SetSeq(_)
SetSeq(S) == IF S = {} THEN <<>> ELSE LET m == CHOOSE x \in S : \A y \in S : x <= y IN <<m>> \o SetSeq(S \ {m})

\* the per-pair limits as the documentation gives them: 0 for excluded pairs and absent ends, 1 if either end forbids
\* parallel connections, otherwise the parallel limit = max(2, largest finite degree of a present end)
\* largest finite degree of a present end (a grouping connector counts with the largest sum of its present members)
FiniteTop(g, n) == IF g.nodes[n].dl # <<>> THEN (CHOOSE m \in SeqSet(g.nodes[n].dl) : \A x \in SeqSet(g.nodes[n].dl) : x <= m) ELSE g.nodes[n].dmax
RECURSIVE SumTop(_, _)
SumTop(g, M) == IF M = {} THEN 0 ELSE LET m == CHOOSE x \in M : TRUE IN FiniteTop(g, m) + SumTop(g, M \ {m})
MaxFinite(g, A, k) ==
    LET ends == (CcSrc(g, k) \cup CcTgt(g, k)) \cap A.nodes
        plainTops == {FiniteTop(g, n) : n \in {x \in ends : Kind(g, x) = "conn" /\ ~OpenEnded(g, x)}}
        grpTops == {SumTop(g, Members(g, n) \cap A.nodes) : n \in {x \in ends : Kind(g, x) = "grp" /\ \A m \in Members(g, x) \cap A.nodes : ~OpenEnded(g, m)}}
        tops == plainTops \cup grpTops
    IN IF tops = {} THEN 2 ELSE LET t == CHOOSE m \in tops : \A x \in tops : x <= m IN IF t > 2 THEN t ELSE 2
ExclPairs(g, k) == {<<p[1], p[2]>> : p \in SeqSet(g.cc[k].excl)}
SemCap(g, A, k) ==
    [i \in DOMAIN CcSrcSeq(g, k) |-> [j \in DOMAIN CcTgtSeq(g, k) |->
        LET s == CcSrcSeq(g, k)[i]
            t == CcTgtSeq(g, k)[j]
        IN IF s \notin A.nodes \/ t \notin A.nodes \/ <<s, t>> \in ExclPairs(g, k) THEN 0
           ELSE IF ~ConnRep(g, A, s) \/ ~ConnRep(g, A, t) THEN 1
           ELSE MaxFinite(g, A, k)]]

RowCapSum(cap, i) == SumSeq(cap[i])
ColCapSum(cap, j) == SumSeq([i \in DOMAIN cap |-> cap[i][j]])
\* the ConnSem problem of choice k in architecture A under per-pair limits cap: every connector gets an explicit
\* finite list of allowed degrees (bounded by what the limits permit)
DummySpec == [dl |-> <<>>, dmin |-> 0, dmax |-> -1, rep |-> TRUE]
GProb(g, A, k, cap) ==
    LET S == CcSrcSeq(g, k)
        Tg == CcTgtSeq(g, k)
    IN [src |-> [i \in DOMAIN S |-> DummySpec], tgt |-> [j \in DOMAIN Tg |-> DummySpec],
        so |-> [i \in DOMAIN S |-> <<i, SetSeq({d \in 0..RowCapSum(cap, i) : ConnAllowed(g, A, S[i], d, RowCapSum(cap, i))})>>],
        to |-> [j \in DOMAIN Tg |-> <<j, SetSeq({d \in 0..ColCapSum(cap, j) : ConnAllowed(g, A, Tg[j], d, ColCapSum(cap, j))})>>],
        cap |-> cap, mcp |-> 0]
ValidConnSets(g, A, k, cap) == ValidMatrices(GProb(g, A, k, cap))
IsValidConnSet(g, A, k, cap, m) == IsValidMatrix(GProb(g, A, k, cap), m)
\* a scenario (selection-level architecture) is kept iff every connection choice has at least one valid set
ConnFeasibleArch(g, A) == \A k \in CcIds(g) : ValidConnSets(g, A, k, SemCap(g, A, k)) # {}

\* connection edges (list of <<s, t>> pairs between connector node ids) -> matrix over the declared connectors of k
EdgeCount(edges, s, t) == Cardinality({i \in DOMAIN edges : edges[i][1] = s /\ edges[i][2] = t})
EdgeMatrix(g, k, edges) == [i \in DOMAIN CcSrcSeq(g, k) |-> [j \in DOMAIN CcTgtSeq(g, k) |-> EdgeCount(edges, CcSrcSeq(g, k)[i], CcTgtSeq(g, k)[j])]]
EdgesOfChoice(g, k, edges) == SelectSeq(edges, LAMBDA e : e[1] \in CcSrc(g, k) /\ e[2] \in CcTgt(g, k))

(***************************************************************************)
(* The edges an architecture consists of (as a set of pairs): declared     *)
(* derivation edges inside it, origin -> selected option, member -> group. *)
(***************************************************************************)
ArchDerEdges(g, A) ==
    {d \in DerPairs(g) : d[1] \in A.nodes /\ d[2] \in A.nodes}
      \cup {<<Origin(g, c), A.sel[c]>> : c \in {cc \in ChIds(g) : A.sel[cc] # 0}}
      \cup UNION {{<<m, i>> : m \in Members(g, i) \cap A.nodes} : i \in GrpIds(g) \cap A.nodes}
=============================================================================
