------------------------------- MODULE DSGSem -------------------------------
(***************************************************************************)
(* Constant-level semantics of a design space graph description (gdesc).   *)
(* Written from docs/theory.md, not from the code.  Every other module     *)
(* imports this one; nothing in the Python harness computes any of it.     *)
(*                                                                         *)
(* A description g is the record read from JSON (harness/gd.py):           *)
(*   g.n, g.nodes (seq of node records), g.start, g.der, g.ch, g.inc,      *)
(*   g.cons, g.cc                                                          *)
(* A (partial) selection is a function sel : ChIds(g) -> 0..g.n, where 0   *)
(* means "not taken" and any other value is the node id of the option.     *)
(***************************************************************************)
EXTENDS Integers, Sequences, FiniteSets, TLC

SeqSet(s) == {s[i] : i \in DOMAIN s}
NodeIds(g) == 1..g.n
ChIds(g) == DOMAIN g.ch
CcIds(g) == DOMAIN g.cc
Opts(g, c) == SeqSet(g.ch[c].opts)
Origin(g, c) == g.ch[c].origin
DerPairs(g) == SeqSet(g.der)
IncPairs(g) == SeqSet(g.inc)
Kind(g, i) == g.nodes[i].t
GrpIds(g) == {i \in NodeIds(g) : Kind(g, i) = "grp"}
Members(g, i) == SeqSet(g.nodes[i].members)
NoSel(g) == [c \in ChIds(g) |-> 0]

(***************************************************************************)
(* Derivation closure.  "A derivation edge asserts that if the source is   *)
(* included then the target is included"; a taken selection choice wires   *)
(* its originating node to the selected option; a grouping connector is    *)
(* derived by each of its member connectors.  An untaken choice blocks.    *)
(***************************************************************************)
ClosureStep(g, sel, S) ==
    S \cup {d[2] : d \in {e \in DerPairs(g) : e[1] \in S}}
      \cup {sel[c] : c \in {cc \in ChIds(g) : Origin(g, cc) \in S /\ sel[cc] # 0}}
      \cup {i \in GrpIds(g) : Members(g, i) \cap S # {}}

RECURSIVE Lfp(_, _, _)
Lfp(g, sel, S) == LET T == ClosureStep(g, sel, S) IN IF T = S THEN S ELSE Lfp(g, sel, T)

Reach(g, sel) == Lfp(g, sel, SeqSet(g.start))          \* = "confirmed" nodes under a partial selection
Active(g, sel) == {c \in ChIds(g) : Origin(g, c) \in Reach(g, sel) /\ sel[c] = 0}

(***************************************************************************)
(* All total option assignments, and the architecture each one denotes.    *)
(***************************************************************************)
RECURSIVE AssignsOver(_, _)
AssignsOver(g, C) ==
    IF C = {} THEN {[c \in {} |-> 0]}
    ELSE LET c == CHOOSE x \in C : \A y \in C : x <= y IN
         {f @@ (c :> o) : f \in AssignsOver(g, C \ {c}), o \in Opts(g, c)}

Arch(g, a) == LET R == Reach(g, a) IN
    [nodes |-> R, sel |-> [c \in ChIds(g) |-> IF Origin(g, c) \in R THEN a[c] ELSE 0]]

IncOK(g, S) == \A p \in IncPairs(g) : ~(p[1] \in S /\ p[2] \in S)

(***************************************************************************)
(* Choice constraints: indices are positions in the declared option list,  *)
(* taken over the members that are active together in the architecture.    *)
(***************************************************************************)
OptIdx(g, c, o) == CHOOSE i \in DOMAIN g.ch[c].opts : g.ch[c].opts[i] = o
ActiveMembers(g, A, k) == SelectSeq(g.cons[k].m, LAMBDA c : A.sel[c] # 0)
ConIdx(g, A, k) == LET am == ActiveMembers(g, A, k) IN [i \in DOMAIN am |-> OptIdx(g, am[i], A.sel[am[i]])]
ConOK(type, ix) ==
    CASE type = "linked"  -> \A i, j \in DOMAIN ix : ix[i] = ix[j]
      [] type = "perm"    -> \A i, j \in DOMAIN ix : i # j => ix[i] # ix[j]
      [] type = "unord"   -> \A i, j \in DOMAIN ix : i < j => ix[i] <= ix[j]
      [] type = "unordnr" -> \A i, j \in DOMAIN ix : i < j => ix[i] < ix[j]
      [] OTHER -> TRUE
ConsOK(g, A) == \A k \in DOMAIN g.cons : Len(g.cons[k].m) < 2 \/ ConOK(g.cons[k].type, ConIdx(g, A, k))

SelAdmissible(g) ==
    {A \in {Arch(g, a) : a \in AssignsOver(g, ChIds(g))} : IncOK(g, A.nodes) /\ ConsOK(g, A)}

Extends(A, sel) == \A c \in DOMAIN sel : sel[c] # 0 => A.sel[c] = sel[c]
ViableIn(adm, g, sel, c) == {o \in Opts(g, c) : \E A \in adm : Extends(A, sel) /\ A.sel[c] = o}
ExtensionExists(adm, sel) == \E A \in adm : Extends(A, sel)

(***************************************************************************)
(* Connection choices: the choice node is connected from its source        *)
(* connectors, so it exists in an architecture iff some source does.       *)
(***************************************************************************)
CcSrc(g, k) == SeqSet(g.cc[k].src)
CcTgt(g, k) == SeqSet(g.cc[k].tgt)
ConnActive(g, A, k) == CcSrc(g, k) \cap A.nodes # {}
\* placeholder until the connection semantics (ConnSem) is imported: a description without connection choices
ConnFeasibleArch(g, A) == TRUE

(***************************************************************************)
(* The edges an architecture consists of (as a set of pairs): declared     *)
(* derivation edges inside it, origin -> selected option, member -> group. *)
(***************************************************************************)
ArchDerEdges(g, A) ==
    {d \in DerPairs(g) : d[1] \in A.nodes /\ d[2] \in A.nodes}
      \cup {<<Origin(g, c), A.sel[c]>> : c \in {cc \in ChIds(g) : A.sel[cc] # 0}}
      \cup UNION {{<<m, i>> : m \in Members(g, i) \cap A.nodes} : i \in GrpIds(g) \cap A.nodes}
=============================================================================
