------------------------------ MODULE Mon_Proc ------------------------------
(***************************************************************************)
(* Total trace monitor for the processor layer.  One trace = one           *)
(* description with, per encoder, New / Dec* / Enum / DecRow* events        *)
(* recorded by harness/drive_proc.py from the real GraphProcessor.         *)
(***************************************************************************)
EXTENDS Processor, Json, IOUtils

Traces == JsonDeserialize(IOEnv.TRACE_FILE)

VARIABLES tid, l, adm, dvs, enc, alive, raw, outs, insts, reached, rows, rowarchs, fails, drift, spaceok
vars == <<tid, l, adm, dvs, enc, alive, raw, outs, insts, reached, rows, rowarchs, fails, drift, spaceok>>

T == Traces[tid]
G == T.g
N == Len(T.ev)
Ev == T.ev[l]
Tag(S) == {<<c, l>> : c \in S}
\* the enumeration of valid designs lists discrete values only: an ACTIVE continuous entry is a placeholder
DiscIdx == {i \in DOMAIN dvs : dvs[i].disc}
SameDisc(x, y) == Len(x) = Len(y) /\ \A i \in DiscIdx : i \in DOMAIN x => x[i] = y[i]
RowInRange(x, act) == Len(x) = Len(dvs) /\ Len(act) = Len(dvs) /\ \A i \in DOMAIN dvs : (dvs[i].disc \/ ~act[i]) => InRangeVar(dvs[i], x[i])
HasLinkedDv == \E k \in DOMAIN G.cons : G.cons[k].dv # <<>>
HasCont == \E i \in DOMAIN dvs : ~dvs[i].disc

\* admissible architectures of the whole description = selection level x connection feasibility
FullAdm(g) == {A \in SelAdmissible(g) : ConnFeasibleArch(g, A)}

Init == /\ tid \in DOMAIN Traces
        /\ l = 1
        /\ adm = FullAdm(Traces[tid].g)
        /\ dvs = <<>> /\ enc = "" /\ alive = FALSE
        /\ raw = {} /\ outs = {} /\ insts = {} /\ reached = {} /\ rows = <<>> /\ rowarchs = {}
        /\ fails = {} /\ drift = {} /\ spaceok = FALSE

\* ---- coverage clauses evaluated when a processor's events end (next New or end of trace) -----------------------
\* every admissible selection-level architecture must have been reached when the whole declared space was decoded
CoverageClauses ==
    IF ~alive \/ ~spaceok THEN {}
    ELSE (IF \A A \in adm : A \in reached THEN {}
          ELSE {IF enc = "fast" THEN "C14.admissible_architecture_unreachable" ELSE "C04.admissible_architecture_unreachable"}
               \cup (IF CcIds(G) # {} THEN {"C11.scenario_lost"} ELSE {})
               \cup (IF G.cons # <<>> THEN {"C13.admissible_index_combination_missing"} ELSE {}))

NewStep(e) ==
    /\ fails' = fails \cup Tag(CoverageClauses
                  \cup (IF e.err # "" /\ adm # {} THEN {IF e.enc = "fast" THEN "C14.construction_raised" ELSE "C01.construction_raised"} ELSE {})
                  \cup (IF e.err = "" /\ ~DvsWellFormed(G, e.dvs) THEN {"C01.design_variables_malformed"} ELSE {}))
    /\ dvs' = e.dvs /\ enc' = e.enc /\ alive' = (e.err = "")
    /\ raw' = {} /\ outs' = {} /\ insts' = {} /\ reached' = {} /\ rows' = <<>> /\ rowarchs' = {} /\ spaceok' = FALSE
    /\ UNCHANGED drift

DecStep(e) ==
    LET r == [err |-> e.err, rx |-> e.rx, ract |-> e.ract, hasinst |-> e.hasinst, inst |-> e.inst]
        base == DecodeClauses(G, adm, dvs, e.x, r)
        ok == e.err = ""
        dg == ArchDigest(e.inst)
        hist ==
          IF ~ok THEN {}
          ELSE (IF \E o \in outs : o[1] = e.x /\ e.rx # e.x THEN {"C03.not_idempotent"} ELSE {})
               \cup (IF \E o \in outs : o[1] = e.rx /\ o[2] # e.ract THEN {"C07.activeness_path_dependent"} ELSE {})
               \cup (IF \E p \in raw : p[1] = e.x /\ p[2] # e.rx THEN {"C05.same_vector_decoded_differently"} ELSE {})
               \cup (IF e.hasinst /\ \E p \in insts : p[1] = e.rx /\ p[2] # dg THEN {"C03.same_vector_two_architectures"} ELSE {})
               \cup (IF e.hasinst /\ \E p \in insts : p[2] = dg /\ p[1] # e.rx THEN {"C03.two_vectors_one_architecture"} ELSE {})
        rowc ==
          IF e.e # "DecRow" \/ ~ok THEN {}
          ELSE (IF SameDisc(e.rx, e.x) THEN {} ELSE {"C04.row_not_fixed_point"})
               \cup (IF e.ract = e.rowact THEN {} ELSE {"C04.row_activeness_differs"})
               \cup (IF e.hasinst /\ ~HasCont /\ dg \in rowarchs THEN {"C04.duplicate_architecture"} ELSE {})
        c14 == IF enc # "fast" THEN {}
               ELSE {c \in {"C14.decode_raised", "C14.architecture_not_admissible", "C14.instance_not_final", "C14.instance_not_feasible"} :
                       \E b \in base : (b = "C01.decode_raised" /\ c = "C14.decode_raised")
                                        \/ (b = "C01.architecture_not_admissible" /\ c = "C14.architecture_not_admissible")
                                        \/ (b = "C01.instance_not_final" /\ c = "C14.instance_not_final")
                                        \/ (b = "C01.instance_not_feasible" /\ c = "C14.instance_not_feasible")}
                    \cup (IF ok /\ \E o \in outs : o[1] = e.x /\ e.rx # e.x THEN {"C14.valid_vector_changed"} ELSE {})
        c13 == IF G.cons = <<>> THEN {}
               ELSE (IF "C01.architecture_not_admissible" \in base THEN {"C13.inadmissible_index_combination_offered"} ELSE {})
                    \cup (IF "C03.two_vectors_one_architecture" \in hist THEN {"C13.index_combination_duplicated"} ELSE {})
    IN /\ fails' = fails \cup Tag(IF alive THEN base \cup hist \cup rowc \cup c14 \cup c13 ELSE {"machinery.decode_without_processor"})
       /\ raw' = IF ok THEN raw \cup {<<e.x, e.rx>>} ELSE raw
       /\ outs' = IF ok THEN outs \cup {<<e.rx, e.ract>>} ELSE outs
       /\ insts' = IF ok /\ e.hasinst THEN insts \cup {<<e.rx, dg>>} ELSE insts
       /\ reached' = IF ok /\ e.hasinst THEN reached \cup MatchSet(G, adm, e.inst) ELSE reached
       /\ rowarchs' = IF ok /\ e.hasinst /\ e.e = "DecRow" THEN rowarchs \cup {dg} ELSE rowarchs
       /\ UNCHANGED <<dvs, enc, alive, rows, drift, spaceok>>

Prod(ns) == LET RECURSIVE P(_) P(i) == IF i > Len(ns) THEN 1 ELSE ns[i] * P(i+1) IN P(1)
DiscreteNs == LET d == SelectSeq(dvs, LAMBDA v : v.disc) IN [i \in DOMAIN d |-> d[i].n]

EnumStep(e) ==
    LET c ==
        IF ~alive THEN {}
        ELSE IF e.err # "" THEN {"C04.enumeration_raised"}
        ELSE (IF e.avail THEN
                 (IF \A i \in DOMAIN e.rows : RowInRange(e.rows[i].x, e.rows[i].act) THEN {} ELSE {"C04.row_out_of_range"})
                 \cup (IF \A i \in DOMAIN e.rows : Len(e.rows[i].act) # Len(dvs) \/ Len(e.rows[i].x) # Len(dvs) \/ Canonical(dvs, e.rows[i].x, e.rows[i].act) THEN {} ELSE {"C07.inactive_not_canonical"})
                 \cup (IF \A i, j \in DOMAIN e.rows : i # j => ~(SameDisc(e.rows[i].x, e.rows[j].x) /\ e.rows[i].act = e.rows[j].act) THEN {} ELSE {"C04.duplicate_row"})
                 \cup (IF e.n_valid = -1 \/ e.n_valid = Len(e.rows) THEN {} ELSE {"C04.count_differs_from_rows"})
                 \* (a design space without any admissible architecture is the error case of C01, not an enumeration)
                 \cup (IF e.n_valid = -1 \/ HasLinkedDv \/ adm = {} \/ e.n_valid = RefCount(G, adm) THEN {} ELSE {"C04.count_differs_from_reference_enumeration"})
                 \cup (IF \A i \in DOMAIN e.rows : \A o \in outs : (~HasCont /\ o[1] = e.rows[i].x) => o[2] = e.rows[i].act THEN {} ELSE {"C07.activeness_path_dependent"})
                 \* every corrected vector the decodes produced must be a listed row and vice versa (when the space was complete)
                 \cup (IF \A o \in outs : \E i \in DOMAIN e.rows : SameDisc(e.rows[i].x, o[1]) /\ e.rows[i].act = o[2] THEN {} ELSE {"C04.decoded_vector_not_listed"})
                 \cup (IF ~e.space_complete \/ adm = {} \/ \A i \in DOMAIN e.rows : \E o \in outs : SameDisc(e.rows[i].x, o[1]) THEN {} ELSE {"C04.listed_row_never_decoded_to"})
              ELSE {})
             \cup (IF e.n_declared = -1 \/ e.n_declared = Prod(DiscreteNs) THEN {} ELSE {"C04.declared_size_not_product"})
             \cup (IF e.ratio_ppm < 0 \/ e.n_valid <= 0 \/ e.n_declared < 0 THEN {}
                   ELSE IF (e.ratio_ppm * e.n_valid - e.n_declared * 1000000) \in (-(e.n_valid))..e.n_valid THEN {} ELSE {"C04.ratio_not_quotient"})
    IN /\ fails' = fails \cup Tag(c)
       /\ rows' = IF e.avail THEN e.rows ELSE <<>>
       /\ spaceok' = e.space_complete
       /\ UNCHANGED <<dvs, enc, alive, raw, outs, insts, reached, rowarchs, drift>>

\* ---- a value set directly on a graph (C16): req and stored values in 1/1024 units, also for option indices ---------
QInDomain(g, n, v) == IF g.nodes[n].disc THEN v % 1024 = 0 /\ v \div 1024 >= 0 /\ v \div 1024 < g.nodes[n].k
                      ELSE v >= g.nodes[n].lo /\ v <= g.nodes[n].hi
QClampOK(g, n, req, v) ==
    IF g.nodes[n].disc
    THEN LET fl == req \div 1024   cl == IF req % 1024 = 0 THEN fl ELSE fl + 1
         IN v \in {1024 * Clamp(0, g.nodes[n].k - 1, fl), 1024 * Clamp(0, g.nodes[n].k - 1, cl)}
    ELSE v = Clamp(g.nodes[n].lo, g.nodes[n].hi, req)
SetDvStep(e) ==
    LET pairs == {e.vals[i] : i \in DOMAIN e.vals}
        c == IF e.err # "" THEN {"C16.direct_set_raised"}
             ELSE (IF \A pr \in pairs : pr[1] \in DvNodeIds(G) => QInDomain(G, pr[1], pr[2]) THEN {} ELSE {"C16.direct_set_stores_value_outside_domain"})
                  \cup (IF \E pr \in pairs : pr[1] = e.n /\ QClampOK(G, e.n, e.req, pr[2]) THEN {} ELSE {"C16.direct_set_not_clamped"})
    IN /\ fails' = fails \cup Tag(c)
       /\ UNCHANGED <<dvs, enc, alive, raw, outs, insts, reached, rows, rowarchs, drift, spaceok>>

\* ---- a decode while one variable is fixed (its own processor): inactive entries are canonical for THEIR variable --------
FixDecStep(e) ==
    LET c == IF e.err # "" THEN {}          \* an empty restriction may raise (C15 judges fix / free semantics)
             ELSE (IF Len(e.rx) = Len(e.dvs) /\ Len(e.ract) = Len(e.dvs) THEN {} ELSE {"C03.corrected_vector_length_with_fixed_variable"})
                  \cup (IF Len(e.rx) = Len(e.dvs) /\ Len(e.ract) = Len(e.dvs) /\ ~Canonical(e.dvs, e.rx, e.ract)
                        THEN {"C07.inactive_not_canonical", "C16.absent_node_not_canonical_with_fixed_variable"} ELSE {})
                  \cup (IF Len(e.rx) = Len(e.dvs) /\ ~InRange(e.dvs, e.rx) THEN {"C03.corrected_vector_out_of_range"} ELSE {})
    IN /\ fails' = fails \cup Tag(c)
       /\ UNCHANGED <<dvs, enc, alive, raw, outs, insts, reached, rows, rowarchs, drift, spaceok>>

Step == /\ l <= N
        /\ LET e == Ev IN
             CASE e.e = "New" -> NewStep(e)
               [] e.e \in {"Dec", "DecRow"} -> DecStep(e)
               [] e.e = "Enum" -> EnumStep(e)
               [] e.e = "SetDv" -> SetDvStep(e)
               [] e.e = "FixDec" -> FixDecStep(e)
               [] OTHER -> /\ fails' = fails \cup Tag({"machinery.unknown_event"})
                           /\ UNCHANGED <<dvs, enc, alive, raw, outs, insts, reached, rows, rowarchs, drift, spaceok>>
        /\ l' = l + 1
        /\ UNCHANGED <<tid, adm>>

Finish == /\ l = N + 1
          /\ fails' = fails \cup Tag(CoverageClauses)
          /\ l' = l + 1
          /\ UNCHANGED <<tid, adm, dvs, enc, alive, raw, outs, insts, reached, rows, rowarchs, drift, spaceok>>

Next == Step \/ Finish
Spec == Init /\ [][Next]_vars
Report == (l = N + 2) => PrintT(<<"VERDICT", T.tid, fails, drift, Cardinality(adm)>>)
=============================================================================
