------------------------------- MODULE Mon_Idx -------------------------------
(* The index-combination function of choice constraints (C13): which rows of an index matrix (-1 = inactive) are valid
   for a constraint type.  Reference = ConOK of DSGSem over the ACTIVE entries of each row, in column (= choice) order.
   For UNORDERED_NOREPL the library deliberately relaxes "strictly increasing" to "non-decreasing" when all member
   choices are permanent (the strictness is then enforced by pre-removed options): accepted as documented in the code. *)
EXTENDS DSGSem, Json, IOUtils
Cases == JsonDeserialize(IOEnv.TRACE_FILE)
VARIABLES tid, done
vars == <<tid, done>>
E == Cases[tid].ev
ActiveIdx(r) == SelectSeq(r, LAMBDA v : v # -1)
RowValid(type, allperm, r) ==
    LET a == ActiveIdx(r) IN
    IF Len(r) <= 1 \/ Len(a) <= 1 THEN TRUE
    ELSE IF type = "unordnr" /\ allperm THEN ConOK("unord", a) ELSE ConOK(type, a)
Expected == {i - 1 : i \in {k \in DOMAIN E.rows : RowValid(E.type, E.all_permanent, E.rows[k])}}
Got == {E.valid[i] : i \in DOMAIN E.valid}
Clauses == (IF Expected \subseteq Got THEN {} ELSE {"C13.valid_index_combination_rejected"})
           \cup (IF Got \subseteq Expected THEN {} ELSE {"C13.invalid_index_combination_accepted"})
           \cup (IF Cardinality(Got) = Len(E.valid) THEN {} ELSE {"C13.index_combination_listed_twice"})
Init == tid \in DOMAIN Cases /\ done = FALSE
Step == ~done /\ done' = TRUE /\ UNCHANGED tid
Spec == Init /\ [][Step]_vars
Report == done => PrintT(<<"VERDICT", Cases[tid].tid, {<<c, 1>> : c \in Clauses}>>)
=============================================================================
