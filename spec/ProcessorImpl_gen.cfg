SPECIFICATION Spec
CONSTANTS MaskAliased = TRUE  CacheHandsOutSame = TRUE  MaxDepth = 5
VIEW CoreView
INVARIANT EmitHist
CONSTRAINT Bound
CHECK_DEADLOCK FALSE
