------------------------------- MODULE Identity -------------------------------
(***************************************************************************)
(* Structural identity of graph objects (C18).  Two objects A and B start  *)
(* as a graph and its copy.  An edit is one of a fixed set of independent, *)
(* idempotent structural changes (add a node, add an edge, remove a node,  *)
(* remove an edge, add an incompatibility, add a start node, add a choice  *)
(* constraint), applied to either side.  Because the edits are independent *)
(* the structure of a side is the set of edits applied to it, and          *)
(*      A = B   <=>   edits[A] = edits[B]                                  *)
(* is what equality and hashing must report after every step.              *)
(***************************************************************************)
EXTENDS Naturals, Sequences, FiniteSets, TLC
CONSTANTS Edits, MaxDepth
Sides == {"A", "B"}
VARIABLES edits, hist
vars == <<edits, hist>>
Init == edits = [s \in Sides |-> {}] /\ hist = <<>>
Apply(s, e) == /\ e \notin edits[s]
               /\ edits' = [edits EXCEPT ![s] = @ \cup {e}]
               /\ hist' = Append(hist, [side |-> s, edit |-> e])
Next == \E s \in Sides : \E e \in Edits : Apply(s, e)
Spec == Init /\ [][Next]_vars
Bound == Len(hist) <= MaxDepth
ExpectedEqual == edits["A"] = edits["B"]
\* every state carries its history: one behaviour per reachable (ordered) edit sequence
EmitHist == PrintT(<<"HIST", hist, ExpectedEqual>>)
\* sanity of the model itself: equality can only be re-established by applying the same edit to the other side
Symmetric == ExpectedEqual <=> (\A e \in Edits : (e \in edits["A"]) = (e \in edits["B"]))
=============================================================================
