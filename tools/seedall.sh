#!/bin/bash
# usage: tools/seedall.sh <id>...   - intake (confirm) and evaluate the own-property quick check (seeds 0 and 1) for each seeded change
cd "$(dirname "$0")/.."
for id in "$@"; do
  tools/seedin.sh $id >> seeded/RESULTS.raw 2>&1
  for k in 1 2; do
    [ -f seeded/$id/patch$k.diff ] || continue
    tools/seedrun.sh ${id}_$k /verif/seeded/$id/patch$k.diff "0 1" $id 2>&1 | grep "^MUT\|PATCH" >> seeded/RESULTS.raw
  done
done
echo "SEEDALL-DONE $@" >> seeded/RESULTS.raw
