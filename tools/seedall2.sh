#!/bin/bash
# usage: tools/seedall2.sh <id>...  - second-round changes: intake from /tmp/seed2_<id>_out into seeded/<id>b, then the own-property check
cd "$(dirname "$0")/.."
for id in "$@"; do
  tools/seedin.sh $id /tmp/seed2_${id}_out ${id}b >> seeded/RESULTS.raw 2>&1
  for k in 1 2; do
    [ -f seeded/${id}b/patch$k.diff ] || continue
    tools/seedrun.sh ${id}b_$k /verif/seeded/${id}b/patch$k.diff "0 1" $id 2>&1 | grep "^MUT\|PATCH" >> seeded/RESULTS.raw
  done
done
echo "SEEDALL2-DONE $@" >> seeded/RESULTS.raw
