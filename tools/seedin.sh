#!/bin/bash
# usage: tools/seedin.sh <id> [srcdir] [name]  - confirm the seeded changes an agent left in srcdir (default /tmp/seed_<id>_out)
# and store them in seeded/<name>/ (default <id>; second-round changes use <id>b)
cd "$(dirname "$0")/.."
id=$1; src=${2:-/tmp/seed_${id}_out}; name=${3:-$id}; dst=seeded/$name
mkdir -p $dst
wt=/tmp/conf_$id
export XDG_CACHE_HOME=/tmp/conf_$id.cache   # the library's disk cache must never be shared with runs of other trees
rm -rf $XDG_CACHE_HOME; mkdir -p $XDG_CACHE_HOME
git -C /repo worktree remove --force $wt >/dev/null 2>&1
git -C /repo worktree add --detach $wt HEAD -q || exit 2
for k in 1 2; do
  [ -f $src/patch$k.diff ] || continue
  ( cd $wt && git checkout -q -- . && PYTHONPATH=$wt timeout 600 /venv/bin/python $src/demo$k.py >/tmp/conf_$id.out 2>&1 ); rc0=$?
  if ! git -C $wt apply $src/patch$k.diff; then echo "SEED $name/$k PATCH-DOES-NOT-APPLY"; continue; fi
  files=$(git -C $wt diff --name-only | tr '\n' ' ')
  ( cd $wt && PYTHONPATH=$wt timeout 600 /venv/bin/python $src/demo$k.py >/tmp/conf_$id.out 2>&1 ); rc1=$?
  tests=$( cd $wt && PYTHONPATH=$wt timeout 1500 /venv/bin/python -m pytest -q -p no:cacheprovider --timeout=900 --continue-on-collection-errors 2>&1 | grep -E "^FAILED|passed|failed" | tr '\n' ' ' | cut -c1-300 )
  echo "SEED $name/$k pristine_rc=$rc0 patched_rc=$rc1 files: $files tests: $tests | $(grep -m1 'PROPERTY VIOLATED' /tmp/conf_$id.out | cut -c1-160)"
  cp $src/patch$k.diff $src/demo$k.py $dst/
  git -C $wt checkout -q -- .
done
cp $src/meta.json $dst/ 2>/dev/null
rm -f /tmp/conf_$id.out
rm -rf /tmp/conf_$id.cache
git -C /repo worktree remove --force $wt
