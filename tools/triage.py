#!/usr/bin/env python3
"""Print failing clauses of a memoised layer result grouped by clause and feature tags (triage helper, not a check)."""
import json, sys, glob, os, collections
V = os.path.dirname(os.path.dirname(os.path.abspath(__file__)))
pat = sys.argv[1]
files = sorted(glob.glob(os.path.join(V, '.cache/memo', pat+'-*.json')), key=os.path.getmtime)
res = json.load(open(files[-1]))
print(files[-1], 'traces', res['n_traces'])
by = collections.defaultdict(list)
for f in res['fails']:
    for c in sorted({x[0] for x in f['fails']}):
        by[c].append(f)
for c, fs in sorted(by.items()):
    feats = collections.Counter(tuple(sorted(f['g'].get('feat', []))) for f in fs)
    print('%-50s %4d' % (c, len(fs)), dict(list(feats.most_common(4))))
    if len(sys.argv) > 2 and sys.argv[2] in c:
        for f in fs[:int(sys.argv[3]) if len(sys.argv) > 3 else 3]:
            g = f['g']
            print('    ', {k: g[k] for k in ('n', 'start', 'der', 'ch', 'inc', 'cons', 'cc') if g.get(k)}, [x for x in f['fails'] if x[0] == c][:2])
