#!/bin/bash
# usage: tools/seedeval.sh [seeds] [suffix]  - every stored seeded change (or those of one round: suffix b / c) against
# the quick check of its own property
cd "$(dirname "$0")/.."
seeds=${1:-"0 1"}; suf=${2:-}
for d in seeded/C*$suf/; do id=$(basename $d); for k in 1 2; do
  [ -f $d/patch$k.diff ] || continue
  tools/seedrun.sh ${id}_$k $(pwd)/$d/patch$k.diff "$seeds" ${id:0:3} 2>&1 | grep "^MUT\|PATCH"
done; done
echo SEEDEVAL-DONE
