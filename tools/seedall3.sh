#!/bin/bash
# usage: tools/seedall3.sh <id>...  - third-round changes: intake from /tmp/seed3_<id>_out into seeded/<id>c, then the own-property check
cd "$(dirname "$0")/.."
for id in "$@"; do
  tools/seedin.sh $id /tmp/seed3_${id}_out ${id}c >> seeded/RESULTS.raw 2>&1
  for k in 1 2; do
    [ -f seeded/${id}c/patch$k.diff ] || continue
    tools/seedrun.sh ${id}c_$k /verif/seeded/${id}c/patch$k.diff "0 1" $id 2>&1 | grep "^MUT\|PATCH" >> seeded/RESULTS.raw
  done
done
echo "SEEDALL3-DONE $@" >> seeded/RESULTS.raw
