#!/bin/bash
# usage: tools/seedrun.sh <name> <patch.diff> <seeds, e.g. "0 1"> <ids...>
# Evaluate the registered checks against a seeded change without touching /repo: a scratch worktree of /repo's HEAD under
# /tmp gets the patch, the checks run against it (VERIF_REPO), the worktree is removed afterwards.
# (The equivalent in-place procedure is: git -C /repo apply <patch>; ./check <id>; git -C /repo checkout -- .)
cd "$(dirname "$0")/.."
name=$1; patch=$2; seeds=$3; shift 3
wt=/tmp/mut_$name
git -C /repo worktree remove --force $wt >/dev/null 2>&1
git -C /repo worktree add --detach $wt HEAD -q || exit 2
( cd $wt && git diff --quiet HEAD -- . ; git -C /repo diff HEAD > /tmp/mut_$name.base.diff; [ -s /tmp/mut_$name.base.diff ] && git apply /tmp/mut_$name.base.diff )
rm -f /tmp/mut_$name.base.diff
if ! git -C $wt apply "$patch"; then echo "PATCH-DOES-NOT-APPLY $name"; git -C /repo worktree remove --force $wt; exit 2; fi
for p in "$@"; do for s in $seeds; do
  out=$(VERIF_SCRATCH_OUT=/tmp/mut_${name}_out VERIF_REPO=$wt VERIF_SEED=$s ./check $p 2>&1); rc=$?
  n=$(echo "$out" | grep -c "^VIOLATION")
  first=$(echo "$out" | grep "^VIOLATION" | head -1 | sed 's/.*clause=//' | cut -c1-120)
  echo "MUT $name $p seed=$s rc=$rc violations=$n first: $first"
done; done
git -C /repo worktree remove --force $wt
rm -rf /tmp/mut_${name}_out
