#!/bin/bash
# usage: tools/sweep.sh <from> <to> [ids...] : run quick checks for a range of seeds, print only alarms
cd "$(dirname "$0")/.."
from=$1; to=$2; shift 2
ids=${@:-$(python3 -c "import json;print(' '.join(c['property_id'] for c in json.load(open('MANIFEST.json'))['checks']))")}
for s in $(seq $from $to); do for p in $ids; do
  out=$(VERIF_SEED=$s ./check $p 2>&1); rc=$?
  echo "$out" | grep -E "VIOLATION|MACHINERY" | cut -c1-220
  echo "$out" | tail -1 | grep -q " 0 violation" || echo "seed=$s $p rc=$rc: $(echo "$out" | tail -1)"
done; done
echo SWEEP-DONE
