#!/usr/bin/env python3
"""Regenerate MANIFEST.json from the table below (keeps it schema-valid at all times)."""
import json, os, sys
V = os.path.dirname(os.path.dirname(os.path.abspath(__file__)))
props = [json.loads(l) for l in open(os.path.join(V, 'properties.jsonl'))]

MC_TRACE = 'model_checking'
CLAIMED = {
 'C02': dict(cat='model_checking', tech='TLA+ semantics (DSGSem) + total TLC trace monitor (Mon_Graph) over all-orders exploration traces of the real code',
             text='Every active choice x every offered option is taken from every reached graph object of every generated description (bounded-exhaustive <=5 nodes, theory-page example, seeded random <=13 nodes); TLC evaluates each recorded event against the closure semantics written from docs/theory.md, keeps the specification\'s own selection state per object, checks confluence per resolution state and the set equality finals = SelAdmissible(g) at the end of each trace. Bounded, not a proof.',
             ref='3 C02', note='DSGSem is my reading of docs/theory.md; build.py/project.py trusted as translators; inputs with an incompatible pair joined by a direct derivation edge excluded; TLC + CommunityModules trusted'),
 'C06': dict(cat='model_checking', tech='TLA+ semantics (DSGSem: IncOK, Viable) + total TLC trace monitor (Mon_Graph) on the same all-orders traces',
             text='Same traces as C02; TLC checks per event that no feasible final contains an incompatible pair, that every option with an admissible completion is offered (no over-pruning, against the reference enumeration of all assignments computed by TLC), that forced choices had no other viable option, that infeasible is reported only without admissible extension, and at the end that every admissible architecture was reached.',
             ref='3 C06', note='as C02'),
}
NA = {}

def check_entry(pid):
    c = CLAIMED[pid]
    return {"property_id": pid, "quick_cmd": "./check %s --tier quick" % pid, "thorough_cmd": "./check %s --tier thorough" % pid,
            "evidence_file": "evidence/%s.json" % pid, "replay_cmd_template": "./check %s --replay {path}" % pid,
            "engine": "tlc-trace-monitor", "level_claimed": {"category": c['cat'], "text": c['text'], "design_ref": c['ref']},
            "level_note": c['note'], "technique": c['tech']}

m = {"version": 1, "setup_cmd": "./check setup",
     "hooks": {"guard": "ADSG_CORE_VERIF", "enable": "ADSG_CORE_VERIF=1 in the environment (./check sets it); hooks are no-ops unless the harness also installs a director",
               "baseline_off_cmd": "cd /repo && env -u ADSG_CORE_VERIF /venv/bin/python -m pytest -ra -q -p no:cacheprovider --timeout=900 --continue-on-collection-errors",
               "source_commits": [], "add_only": True},
     "engines": [{"name": "tlc-trace-monitor", "path": "spec/", "serves_properties": sorted(CLAIMED), "kind_free_text": "explicit TLA+ specification (spec/*.tla) checked by TLC; total trace monitors validate traces recorded from the real code; TLC-generated behaviours are replayed into the code"}],
     "checks": [check_entry(p['id']) for p in props if p['id'] in CLAIMED],
     "not_applicable": [{"property_id": p['id'], "reason": NA.get(p['id'], "check not built yet (work in progress; DESIGN.md section 7 gives the build order) - not a claim that the technique cannot apply")} for p in props if p['id'] not in CLAIMED],
     "notes": "All checks: cwd=/verif, ./check <id> --tier quick|thorough, VERIF_SEED respected, exit 0/1/2 (2 = machinery failure, never a verdict)."}
json.dump(m, open(os.path.join(V, 'MANIFEST.json'), 'w'), indent=1)
try:
    import jsonschema
    jsonschema.validate(m, json.load(open('/root/.vp/MANIFEST.schema.json')))
    print('MANIFEST valid;', len(m['checks']), 'checks;', len(m['not_applicable']), 'not claimed')
except ImportError:
    print('written (jsonschema not available to validate)')
