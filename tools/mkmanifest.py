#!/usr/bin/env python3
"""Regenerate MANIFEST.json from the table below (keeps it schema-valid at all times)."""
import json, os, sys
V = os.path.dirname(os.path.dirname(os.path.abspath(__file__)))
props = [json.loads(l) for l in open(os.path.join(V, 'properties.jsonl'))]

MC_TRACE = 'model_checking'
CLAIMED = {
 'C02': dict(cat='model_checking', tech='TLA+ semantics (DSGSem) + total TLC trace monitor (Mon_Graph) over all-orders exploration traces of the real code',
             text='Every active choice x every offered option is taken from every reached graph object of every generated description (bounded-exhaustive <=5 nodes, theory-page example, seeded random <=13 nodes); TLC evaluates each recorded event against the closure semantics written from docs/theory.md, keeps the specification\'s own selection state per object, checks confluence per resolution state and the set equality finals = SelAdmissible(g) at the end of each trace. Bounded, not a proof.',
             ref='3 C02', note='DSGSem is my reading of docs/theory.md; build.py/project.py trusted as translators; inputs with an incompatible pair joined by a direct derivation edge excluded; TLC + CommunityModules trusted'),
 'C06': dict(cat='model_checking', tech='TLA+ semantics (DSGSem: IncOK, Viable) + total TLC trace monitor (Mon_Graph) on the same all-orders traces',
             text='Same traces as C02; TLC checks per event that no feasible final contains an incompatible pair, that every option with an admissible completion is offered (no over-pruning, against the reference enumeration of all assignments computed by TLC), that forced choices had no other viable option, that infeasible is reported only without admissible extension, and at the end that every admissible architecture was reached.',
             ref='3 C06', note='as C02'),
}
PROC_NOTE = 'DSGSem/Processor are my reading of docs/theory.md and the property text; build.py/project.py/drive_proc.py trusted as translators/recorders; excluded input classes: incompatible pair joined by a direct derivation edge, sibling choices sharing an option; violations on inputs matching a committed known finding (same clause + structural trigger) are attributed to it; TLC + CommunityModules trusted'
def _proc(text, tech):
    return dict(cat='model_checking', tech=tech, text=text, ref='3', note=PROC_NOTE)
CLAIMED.update({
 'C01': _proc('Both encoders are built for every generated description (bounded-exhaustive <=5 nodes subset, theory-page example, seeded random with design-variable nodes); every vector of the declared space is decoded (sampled beyond a cap) and TLC checks each recorded result against the decode contract of Processor.tla: final, feasible, node/edge set equal to the closure of some admissible assignment computed by TLC, stored DV values in domain; construction/decoding may only fail when the admissible set is empty.',
              'TLA+ decode contract (Processor.tla over DSGSem) + total TLC trace monitor (Mon_Proc) on whole-declared-space decode traces of the real GraphProcessor'),
 'C03': _proc('Same traces: TLC checks range, Describes (active selection variable <-> wired option in a matching admissible architecture, DV entries = stored values) and, through history variables over the trace, idempotence of the corrected vector (it is decoded again with and without materialising), one architecture per corrected vector and one corrected vector per architecture.',
              'TLA+ Describes/idempotence/injectivity history variables in Mon_Proc on decode + re-decode traces'),
 'C04': _proc('Complete encoder: get_all_discrete_x, counts and ratio are recorded and every row decoded; TLC checks rows are in range, canonical, pairwise distinct, fixed points with the listed activeness, denote pairwise distinct architectures, coincide with the corrected vectors produced by decoding the whole declared space, and that every architecture of the reference enumeration (all option assignments, computed by TLC) is reached; n_valid = rows, n_declared = product, ratio = quotient.',
              'TLC reference enumeration (SelAdmissible) vs recorded enumeration of the complete encoder, Mon_Proc'),
 'C07': _proc('Same traces: active => node exists in a matching admissible architecture; inactive => canonical value; a variable not flagged conditionally active is active in every decoded design; activeness per corrected vector agrees between create=True, create=False, enumeration rows and decodes of uncorrected vectors (history variable).',
              'TLA+ activeness contract + history variable (corrected vector -> activeness) in Mon_Proc'),
 'C14': _proc('Fast encoder forced on every description: soundness clauses of C01, unchanged valid (already corrected) vectors, and at the end of a completely decoded declared space TLC checks that every admissible architecture was reached (same reference set as the complete encoder).',
              'TLC reference enumeration vs whole-declared-space decode traces of the fast encoder, Mon_Proc'),
 'C16': dict(cat='model_checking', tech='spec-as-oracle: Clamp/InDomain/presence rules of Processor.tla evaluated by TLC on decode traces', ref='3 C16', note=PROC_NOTE,
             text='Descriptions with discrete and continuous DV nodes under permanent and conditional nodes; TLC checks per decode that every present DV node has a value inside its domain, that it equals the clamp of the requested entry, that the corrected vector reports it, and that absent nodes have no value and an inactive canonical entry. (Direct set_des_var_value with out-of-range values: see the C16 extension once built.)'),
})
CLAIMED.update({
 'C09': dict(cat='model_checking', tech='spec-as-oracle: declarative ValidMatrices (ConnSem.tla) enumerated by TLC vs recorded enumeration / validation / counts', ref='3 C09',
             note='ConnSem is my reading of the connector-constraint semantics; per-pair limits are logged and only constrained by CapsOK; TLC is an evaluator here (no temporal content); TLC + CommunityModules trusted',
             text='For every connector settings of the corpus (all 1x1 alphabet settings, seeded sample of the 147k-element 2x2 alphabet family with all existence patterns, seeded random up to 3x3 with exclusions, overrides and parallel limits) and every existence pattern the real generator is asked for its aggregate matrices, iter_matrices, validate_matrix on the whole per-pair box, and counts with a cold and a warm cache; TLC computes the set of integer matrices within the limits whose row/column sums are allowed degrees and checks set equality, no duplicates, validate <=> membership and the counts.'),
 'C10': dict(cat='model_checking', tech='TLA+ coding machine with history variables (x->matrix function, onto, listed=produced) in Mon_ConnCoding over ConnSem, on decode traces of every registered encoder x imputer', ref='3 C10',
             note='ConnSem valid-matrix semantics; constraint-violation imputers excluded (returning an invalid design is their purpose); InvalidPatternEncoder is the accepted refusal; an encoder exceeding a 20 s budget is skipped and counted; failures of an (encoder family, imputer, clause) class listed in known_findings.json are attributed to it',
             text='Every factory of the encoder registry is instantiated with the default and alternative imputers on generated settings; per existence pattern with at least one valid matrix every declared vector (sampled above a cap), out-of-range and over-long vectors are decoded, each corrected vector is decoded again, and get_all_design_vectors is recorded. TLC checks: no exception, matrix in ValidMatrices, corrected vector in range and canonical, idempotence, one matrix per corrected vector, onto-ness when the space was decoded completely, listed = produced vectors, at least two used values per variable.'),
})
CLAIMED.update({
 'C11': dict(cat='model_checking', tech='TLA+ connection semantics in DSGSem (ValidConnSets per existence scenario, grouping sums, SemCap) + TLC trace monitors on graph-level (Mon_Graph Conn events) and processor-level (Mon_Proc) traces', ref='3 C11',
             note='DSGSem connection semantics is my reading of docs/theory.md; graph level uses the logged per-pair limits (sanity-checked), processor level the documented limit rule (SemCap); build/project trusted; known findings attributed by clause + structural trigger',
             text='Graph level: for every selection-final instance of every generated description with a connection choice (1-3 sources/targets, permanent or conditional, grouping connectors, exclusion edges; theory-page example) the offered connection sets, validate_conn_edges on the whole box of edge multisets and the application of every offered set are recorded; TLC checks offered = ValidConnSets for the connectors present (missing/extra/duplicate), validate <=> membership, applied edges = chosen set on the right node set, feasible result. Processor level: decoded connection edges are a valid set for the decoded scenario, every scenario with a valid set is reached when the declared space is decoded completely, scenarios without one are never decoded to, and n_valid equals the reference count computed by TLC.'),
})
CLAIMED.update({
 'C19': dict(cat='model_checking', tech='PlusCal/TLA+ model of run_timeout (TimeLimiter.tla) checked by TLC for all interleavings (safety S1-S4, termination under fairness); complete model behaviours forced onto the real code through hook points by a director (schedule-controlled replay); Mon_TL monitor', ref='3 C19',
             note='hook points added by commit 8b39c52 (guard ADSG_CORE_VERIF, inert otherwise); behaviours the director cannot force are skipped and counted; nested calls: model (LEVELS=2) + uncontrolled executions; native blocking = time.sleep; delivered exception class is CPython\'s business (SystemError/KeyboardInterrupt)',
             text='TLC explores every interleaving of caller, worker function, worker thread exit and timer for one call (677 states: outcome correctness, nothing running after return, caller never interrupted, nothing left behind, termination all hold for the configuration the tree implements) and for two nested calls (the tree\'s configuration violates NoneRunningAfterReturn - the recorded known finding; with a join on the exception path it holds, 864k states). All 170 complete single-call behaviours are emitted; the 109 that can be forced (completion racing expiry at each of the caller\'s steps, injection, delivery, swallow-once, die, own TimeoutError) are executed against the real run_timeout with the schedule enforced through the hook points, and TLC checks outcome = model outcome, hook order, delivery count, no worker executing after return, no interrupt in the caller, later call unaffected. An uncontrolled sweep (durations 0.1x-2.6x the limit, five function kinds, nested calls) is validated against the same clauses.'),
})
HIST_NOTE = 'ProcessorImpl abstracts the vector correction to "closest valid row" (its role: design-level contract + history generation); the verdict on the code comes from comparing the long-lived processor with a freshly built twin after every observing step; histories are a state cover (one shortest sequence per abstract state) of bounded depth, not all sequences; TLC + CommunityModules trusted'
CLAIMED.update({
 'C05': dict(cat='model_checking', tech='implementation-shaped TLA+ model (ProcessorImpl: feasibility mask, fixed mask, cached instances) model-checked by TLC; TLC-generated operation histories replayed into the real GraphProcessor against a fresh twin; Mon_Hist trace monitor', ref='3 C05', note=HIST_NOTE,
             text='TLC proves on problems extracted from real processors that the decode contract (Pure, Independent) holds for every operation sequence when the mask is not aliased and cached objects are not handed out, and that each of the two flaws violates it (the counterexamples are the two defects repaired in 60c3215 / efeee2d). TLC then emits one shortest operation sequence per distinct abstract state over {Decode(x,create), Enumerate, Stats, Fix, Free, Mutate, Pickle}; every sequence is replayed into a long-lived processor (complete and fast encoder), a freshly built processor with the same fixed values answers the same question after each observing step, and an observation block (all vectors, with and without create, enumeration) follows. TLC checks long-lived = fresh, create-flag independence, and that no handed-out instance is shared or carries foreign values.'),
 'C15': dict(cat='model_checking', tech='same histories as C05; Mon_Hist keeps the specification\'s fixed map and compares each restricted enumeration with the two filters of the unrestricted one', ref='3 C15', note=HIST_NOTE,
             text='On the replayed Fix/Free histories TLC checks after every Enumerate that the restricted rows lie between {original rows with the fixed value} and {original rows with the fixed value or inactive} (column removed), that there are no duplicates, that n_valid(with_fixed) and the declared size describe that subset, that the listed variables are exactly the free ones, that valid fixes are accepted and out-of-range / connection-variable fixes rejected, that with nothing fixed the enumeration is the original one, and that decodes equal those of a fresh processor with the same fixed values (freeing restores exactly).'),
})
CLAIMED.update({
 'C13': dict(cat='model_checking', tech='ConsOK (DSGSem.tla) as the reference for admissible index combinations; bounded-exhaustive constraint family through Mon_Graph (all orders) and Mon_Proc (both encoders); Mon_Idx for the index-combination function', ref='3 C13',
             note='indices are positions in the declared option list over the members active together; permutation / non-replacing constraints with fewer options than choices are infeasible by documentation and excluded; known findings attributed by clause + trigger',
             text='Every description of the bounded family (constraint type x 2-3 choices x 2-4 options x five placements) is explored at graph level in all orders - TLC checks with ConsOK that exactly the documented index combinations remain reachable, that forced choices had no other viable option and that unsatisfiable branches become infeasible - and at processor level with both encoders over the whole declared space and the enumeration (missing / inadmissible / duplicated combinations). Linked design-variable nodes must carry the same option index or the same relative position within their bounds. get_valid_idx_combinations is compared row by row with ConOK on every small index matrix.'),
})
CLAIMED.update({
 'C08': dict(cat='model_checking', tech='TLA+ machine over a family of live graph objects (DSGResolve.tla: Persist action property, shared-attribute refinement) model-checked by TLC; TLC-generated derive sequences replayed on real objects with every live object re-observed after every operation; Mon_Persist', ref='3 C08',
             note='degree attributes read from node objects before any recomputing call; operations the object does not offer are skipped and counted; <= 4 live objects, depth <= 4; TLC + CommunityModules trusted',
             text='TLC checks on each description that DSGResolve satisfies Persist (no derive operation changes an existing object) and DegreesPersistent with value semantics, and that sharing node attributes between objects violates DegreesPersistent in two steps (the known finding). One shortest derive sequence per distinct abstract state over {Copy, TakeSel, ApplyConn, SetDV, ConstrainCopy, Decode} - applied to any live object, not only the newest - is replayed on real DSG objects; after each operation every live object is observed through the full list of the property and TLC checks that no old object changed (graph, status, next choices and options, valid connection sets, connector degrees, stored values).'),
})
NA = {}

def check_entry(pid):
    c = CLAIMED[pid]
    return {"property_id": pid, "quick_cmd": "./check %s --tier quick" % pid, "thorough_cmd": "./check %s --tier thorough" % pid,
            "evidence_file": "evidence/%s.json" % pid, "replay_cmd_template": "./check %s --replay {path}" % pid,
            "engine": "tlc-trace-monitor", "level_claimed": {"category": c['cat'], "text": c['text'], "design_ref": c['ref']},
            "level_note": c['note'], "technique": c['tech']}

m = {"version": 1, "setup_cmd": "./check setup",
     "hooks": {"guard": "ADSG_CORE_VERIF", "enable": "ADSG_CORE_VERIF=1 in the environment (./check sets it); hooks are no-ops unless the harness also installs a director",
               "baseline_off_cmd": "cd /repo && env -u ADSG_CORE_VERIF /venv/bin/python -m pytest -ra -q -p no:cacheprovider --timeout=900 --continue-on-collection-errors",
               "source_commits": ["8b39c52"], "add_only": True},
     "engines": [{"name": "tlc-trace-monitor", "path": "spec/", "serves_properties": sorted(CLAIMED), "kind_free_text": "explicit TLA+ specification (spec/*.tla) checked by TLC; total trace monitors validate traces recorded from the real code; TLC-generated behaviours are replayed into the code"}],
     "checks": [check_entry(p['id']) for p in props if p['id'] in CLAIMED],
     "not_applicable": [{"property_id": p['id'], "reason": NA.get(p['id'], "check not built yet (work in progress; DESIGN.md section 7 gives the build order) - not a claim that the technique cannot apply")} for p in props if p['id'] not in CLAIMED],
     "notes": "All checks: cwd=/verif, ./check <id> --tier quick|thorough, VERIF_SEED respected, exit 0/1/2 (2 = machinery failure, never a verdict)."}
json.dump(m, open(os.path.join(V, 'MANIFEST.json'), 'w'), indent=1)
try:
    import jsonschema
    jsonschema.validate(m, json.load(open('/root/.vp/MANIFEST.schema.json')))
    print('MANIFEST valid;', len(m['checks']), 'checks;', len(m['not_applicable']), 'not claimed')
except ImportError:
    print('written (jsonschema not available to validate)')
