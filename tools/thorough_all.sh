#!/bin/bash
# usage: tools/thorough_all.sh [seed] [ids...] : every thorough check once, summary lines only
cd "$(dirname "$0")/.."
seed=${1:-0}; shift
ids=${@:-$(python3 -c "import json;print(' '.join(c['property_id'] for c in json.load(open('MANIFEST.json'))['checks']))")}
for p in $ids; do
  out=$(VERIF_SEED=$seed ./check $p --tier thorough 2>&1); rc=$?
  echo "$out" | grep -E "^VIOLATION|MACHINERY" | sed 's/replay=[^ ]*//' | cut -c1-200 | sort | uniq -c | sort -rn | head -8
  echo "rc=$rc $(echo "$out" | tail -1)"
done
echo THOROUGH-DONE
